"""tools/probe.py <Cnn> <clause> [n] [seed]: runs n generated cases of one clause in-process and
prints the slowest ones and any exception (development aid; not used by the checks)."""
import sys
import time

sys.path[:0] = ["/verif", "/verif/.deps"]
import importlib

import hypothesis
from hypothesis import HealthCheck, Phase, given, settings

from vf.core import Recorder

prop, clause = sys.argv[1], sys.argv[2]
n = int(sys.argv[3]) if len(sys.argv) > 3 else 40
seed = int(sys.argv[4]) if len(sys.argv) > 4 else 1
mod = importlib.import_module(f"vf.props.{prop.lower()}")
mod.setup()
cl = {c.name: c for c in mod.CLAUSES}[clause]
rec = Recorder([], prop, clause)
times = []


@hypothesis.seed(seed)
@settings(max_examples=n, database=None, deadline=None, suppress_health_check=list(HealthCheck), phases=[Phase.generate])
@given(cl.strategy())
def t(case):
    t0 = time.time()
    rec.begin(case)
    try:
        cl.check(case, rec)
    except Exception as e:
        print("EXC", type(e).__name__, str(e)[:500])
    times.append((round(time.time() - t0, 3), str(case)[:300]))


t()
times.sort(key=lambda x: -x[0])
for x in times[:6]:
    print(x)
print("total", sum(x[0] for x in times), "labels", dict(rec.labels))
