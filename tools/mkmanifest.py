#!/venv/bin/python
"""Regenerates MANIFEST.json from tools/manifest_data.py and validates it against the schema."""
import json
import os
import sys

HERE = os.path.dirname(os.path.dirname(os.path.abspath(__file__)))
sys.path.insert(0, HERE)
sys.path.insert(0, os.path.join(HERE, ".deps"))
from tools.manifest_data import CHECKS, NOT_APPLICABLE  # noqa: E402

BASELINE = (
    "cd /repo && /venv/bin/python -m pytest -ra -q -p no:cacheprovider --timeout=900 "
    "--continue-on-collection-errors"
)

manifest = {
    "version": 1,
    "setup_cmd": "./setup.sh",
    "hooks": {
        "guard": "TERM_IMAGE_VERIF",
        "enable": "none needed: ./check exports TERM_IMAGE_VERIF=1 and imports /repo/src from the current "
                  "working tree; all observation is done by monkey-patching from the harness process",
        "baseline_off_cmd": BASELINE,
        "source_commits": [],
        "add_only": True,
    },
    "engines": [
        {
            "name": "vf",
            "path": "vf/",
            "serves_properties": [c["property_id"] for c in CHECKS],
            "kind_free_text": "Hypothesis property-based testing + exhaustive enumeration + fault enumeration "
                              "against explicit oracles (terminal model, protocol decoders, reference models)",
        }
    ],
    "checks": [],
    "not_applicable": NOT_APPLICABLE,
    "notes": "See DESIGN.md. Every check: ./check <id> --tier quick|thorough; replays under replays/.",
}
for c in CHECKS:
    pid = c["property_id"]
    manifest["checks"].append(
        {
            "property_id": pid,
            "quick_cmd": f"./check {pid} --tier quick",
            "thorough_cmd": f"./check {pid} --tier thorough",
            "evidence_file": f"/verif/evidence/{pid}.json",
            "replay_cmd_template": f"./check {pid} --replay {{path}}",
            "engine": "vf",
            "level_claimed": {"category": c.get("level", "exploration"), "text": c["text"],
                              "design_ref": c.get("design_ref", f"DESIGN.md section 6, {pid}")},
            "level_note": c["note"],
            "technique": c["technique"],
        }
    )

path = os.path.join(HERE, "MANIFEST.json")
with open(path, "w") as f:
    json.dump(manifest, f, indent=1)
    f.write("\n")

import jsonschema  # noqa: E402

schema = json.load(open("/root/.vp/MANIFEST.schema.json"))
jsonschema.validate(manifest, schema)
print("MANIFEST.json valid;", len(manifest["checks"]), "checks;", len(NOT_APPLICABLE), "not applicable")
ev_schema = json.load(open("/root/.vp/EVIDENCE.schema.json"))
for c in CHECKS:
    p = os.path.join(HERE, "evidence", c["property_id"] + ".json")
    if os.path.exists(p):
        try:
            jsonschema.validate(json.load(open(p)), ev_schema)
        except Exception as e:
            print("EVIDENCE INVALID", p, str(e)[:300])
            sys.exit(1)
    else:
        print("note: no evidence file yet for", c["property_id"])
