#!/bin/bash
# tools/coverage.sh [ids...]  line/branch coverage of /repo/src/term_image reached by the quick tier of the checks
# (workers run under coverage.py; output: /tmp/vfcov/report.txt).  Diagnosis only, not a registered check.
cd "$(dirname "$0")/.." || exit 2
D=/tmp/vfcov; rm -rf $D; mkdir -p $D
ids=${*:-$(seq -f "C%02g" 1 20)}
for p in $ids; do VF_COVERAGE=$D VF_QUICK_SCALE=${SCALE:-1} ./check $p --tier quick --no-evidence 2>&1 | tail -1; done
cd $D && /venv/bin/python -m coverage combine -q --data-file=$D/.coverage $D >/dev/null 2>&1
/venv/bin/python -m coverage report --data-file=$D/.coverage -m --skip-empty > $D/report.txt 2>&1
tail -40 $D/report.txt
