"""Data for MANIFEST.json: one entry per claimed property; NOT_APPLICABLE lists the rest."""

ALL = ["C%02d" % i for i in range(1, 21)]
_PENDING = "check not built yet in this round; it will be decided with the same technique (see DESIGN.md section 6)"

CHECKS = [
    {
        "property_id": "C01",
        "technique": "property-based testing (Hypothesis) of renders executed on a terminal model oracle",
        "text": "Generated image/style/method/style-arg/alpha/size/terminal/identity/start-position cases; each "
                "render is executed on the vf.vt terminal model and judged cell-by-cell (touched == rectangle, "
                "covered, no scroll/wrap/clamp, final cursor, SGR reset, complete sequences). Exploration: "
                "evidence over the generated cases only.",
        "note": "Trusts the terminal/graphics semantics encoded in vf/vt.py (ECMA-48, kitty, iTerm2; konsole/"
                "wezterm quirks as the library documents them), Pillow and CPython.",
    },
    {
        "property_id": "C19",
        "technique": "exhaustive enumeration of short strings + grammar-based Hypothesis generation against a reference recogniser",
        "text": "All strings up to length 4 (quick) / 5 (thorough) over a 20-symbol alphabet of class representatives, "
                "for each of the three style classes, are judged against a hand-written recursive-descent recogniser "
                "of the documented grammar (acceptance set, error type, denoted values); generated full-length "
                "sentences and one-edit near-sentences are additionally pushed through format(), ImageIterator() and "
                "UrwidImage() (same accept/reject, no side effects on rejection) and format() is compared with draw() "
                "called with the denoted explicit parameters. Exhaustive below the length bound, exploration above it.",
        "note": "Trusts the reference recogniser's reading of docs/source/guide/formatting.rst and the style class "
                "docstrings (z-index range per the normative rule, ASCII alphabet).",
    },
    {
        "property_id": "C04",
        "technique": "property-based testing against an exact rational-arithmetic reference; model-based op histories",
        "text": "Generated (family, source size up to 3000^2, terminal size, cell size/unknown, float cell ratio, "
                "absolute/relative frame, mode) cases are judged in exact Fraction arithmetic against every clause of "
                "the property (positivity, FIT/AUTO within frame, FIT touching, FIT_TO_WIDTH, kept dimensions, free "
                "dimension within <1 cell of the exact aspect value, AUTO choice rule); op histories check that fixed "
                "sizes never move and dynamic sizes follow the configuration; UrwidImage.rows() == rendered rows.",
        "note": "Tolerances are the property's own (<1 cell; AUTO may go either way within a half-pixel rounding band "
                "incl. the exact tie). Terminal facts are injected through the StubEnv seam used by the repo's tests.",
    },
    {
        "property_id": "C05",
        "technique": "differential testing on a terminal model (padded output vs bare render at the reference offset) + exhaustive small grid",
        "text": "For generated inner renders (glyph grids, block SGR renders, kitty/iterm2 renders in every quirk "
                "identity), paddings (aligned absolute/relative, exact), fills and terminal sizes, the padded output "
                "is executed on the terminal model and compared cell-by-cell and placement-by-placement with the bare "
                "render placed at the offset given by reference arithmetic; covers Padding.pad, Renderable.render, "
                "RenderIterator (incl. set_padding, also after the iterator's own render size was changed), format(image, spec) and image.draw(); a small grid of aligned "
                "paddings is enumerated exhaustively.",
        "note": "Trusts vf.vt terminal semantics and the one-column-fill precondition documented for Padding.",
    },
    {
        "property_id": "C08",
        "technique": "model-based testing: generated operation histories in lock-step with a reference model of RenderIterator",
        "text": "Generated set-ups (definite/Sub/INDEFINITE stream renderables, loops, cache settings, the three "
                "constructors, paddings incl. terminal-relative, static/DYNAMIC duration) and op lists (next, seek in "
                "all three modes with in- and out-of-range offsets, set_frame_duration/padding/render_args/render_size, "
                "close, renderable.seek, terminal resize) are run on the real iterator and on a reference model "
                "written from the docstrings; every Frame field, exception type, loop countdown, renderable.tell() "
                "and, for INDEFINITE sources, the seek handed to the renderable are compared after every step.",
        "note": "Where the documentation is silent (next frame number == frame_count after the last frame of a loop) "
                "the model follows the implementation; padded outputs are built with ExactPadding.pad (C05).",
    },
    {
        "property_id": "C16",
        "technique": "model-based testing of generated programs over fresh render-class trees against a documentation-derived reference model",
        "text": "Hypothesis generates programs over fresh render-class trees (depth<=4, namespaces associated before "
                "use) and runs 12-25 constructor/update/convert/|/+/[]/in/==/hash/RenderData operations plus "
                "definition-time negatives against the real API and, in lock-step, a reference model; every result and "
                "exception class is compared, and after each operation every previously created object, every class's "
                "default namespaces and interned default set are re-verified (immutability/aliasing).",
        "note": "Trusts vf/ref/renderargs.py as the reading of the docs (either documented error accepted when two "
                "conditions coincide); single inheritance, <=8 classes, <=3 primitive fields, <=25 ops per program.",
    },
    {
        "property_id": "C20",
        "technique": "model-based testing of generated set/unset programs over style-subclass trees; render method decoded from output framing",
        "text": "Generated programs (subclass trees below KittyImage/ITerm2Image, instances, set/unset/invalid-write "
                "ops for render method, forced_support, jpeg_quality, read_from_file, native_anim_max_bytes, renders "
                "with and without per-call override) run in lock-step with a documentation-derived model; after every "
                "operation every class and instance is re-observed (getters, instantiation behaviour, and the render "
                "method/JPEG/read-from-file actually used, decoded from the output).",
        "note": "Trusts vf/ref/styles.py (docstrings + glossary 'descendant'), the framing decoder in c20.py and "
                "Pillow for JPEG quantisation tables; single-inheritance trees only.",
    },
    {
        "property_id": "C09",
        "technique": "differential testing of paired cached/uncached iterators over generated operation histories",
        "text": "The C08 op histories are run on two iterators over identical instrumented renderables (caching off vs "
                "cache in {True, n-1, n, n+1}); frames, exceptions and loop values must agree at every step, and the "
                "render log of the cached one must contain no second render of a frame within a settings epoch. "
                "ImageIterator(cached=False) vs cached on two images of the same animated file with next/seek/size "
                "change/terminal resize/close histories are compared the same way.",
        "note": "A padding change counts as a settings change for the no-second-render clause (lenient reading of the "
                "property); instrumented renderables are the harness's own (the library has no concrete Renderable). "
                "Image histories in which Pillow 11.1's own APNG decoder fails on a backward seek (pure-PIL "
                "reproduction) are excluded and counted.",
    },
    {
        "property_id": "C10",
        "technique": "stateful property-based testing with fault injection into the k-th frame render; finalize-call counting on an instrumented render class",
        "text": "Generated histories (render, str, draw still/animated incl. size-validation failures, iterators from "
                "all three constructors incl. caller-owned data, next/seek/close/drop+gc, explicit finalize, faults "
                "RenderError/Exception/StopIteration/KeyboardInterrupt at the k-th render) run on a renderable whose "
                "class registers every RenderData and counts _finalize_render_data_ calls; after every operation the "
                "exactly-once / never-used-after / caller-ownership / closed-iterator invariants are checked (incl. a close() "
                "attempted from inside a frame render). Clause families: a fresh hierarchy of render classes per case "
                "(with / without / inheriting a data finalizer) used in generated order; each class's finalizer runs "
                "exactly once on each of its data objects.",
        "note": "Finalization on failure is required as soon as the failing call has raised, not at garbage collection "
                "(the registry holds strong references, so the __del__ fallback does not mask a missing finalize).",
    },
    {
        "property_id": "C02",
        "technique": "property-based testing: block renders executed on a terminal model and compared exactly with a documentation-derived pixel reference",
        "text": "Generated block renders (nine modes, alpha None/threshold/'#'/hex, terminal background known/unknown, "
                "kitty workaround, split cells, up to 24x12 cells, exact-size and resampled, alpha transitions inside "
                "colour runs) are executed on the terminal model; the half-cell colours read back are compared exactly "
                "with a reference built from the documented conversion, threshold and compositing rules; determinism, "
                "split-cells equivalence and uniformity are checked as metamorphic relations; the public path format(image, "
                "'1.1#...') with the same transparency setting written as a specifier must give the identical render. "
                "Clause interrupted (fault enumeration): the first render of a fresh image is interrupted at every source "
                "line it passes through (outside clean-up code), under the same or another transparency setting; the "
                "next render must equal an undisturbed twin's.",
        "note": "Trusts Pillow convert/BOX resize/alpha_composite and vf.vt; the kitty BG+-1 nudge is accepted only on "
                "halves painted with a cell background equal to the known terminal background.",
    },
    {
        "property_id": "C03",
        "technique": "property-based testing + enumerated chunk-boundary family; raw protocol framing tokeniser and decoded-pixel comparison",
        "text": "Generated kitty and iTerm2 renders plus an enumerated chunk-boundary family (payloads of exactly 3072k+d "
                "bytes, raw and zlib) are tokenised from the raw string; chunk framing, control keys, payload length and "
                "decoded pixels (LINES strips stitched) are judged exactly against the pixel reference; read-from-file, "
                "JPEG and native-animation payload rules are checked against the source bytes.",
        "note": "Trusts vf/proto.py's reading of the kitty/iTerm2 protocols, Pillow decoders, zlib/base64; JPEG/WebP "
                "re-encodes judged on format and size only; WHOLE resolution only lower-bounded.",
    },
    {
        "property_id": "C12",
        "technique": "property-based testing on a real pty with a scripted terminal responder and a virtual clock (generated reply schedules)",
        "text": "The library talks to a real pty; the master side answers OSC 10/11, XTVERSION, DA1, XTWINOPS and kitty "
                "queries according to a generated profile and a generated reply schedule under a virtual clock "
                "(patched select/monotonic). Every query function and the support/auto-selection logic is compared "
                "with a documentation-derived reference; after each call no reply byte may remain unread and waiting "
                "is bounded by the timeout; disabled queries must send nothing; colours are requested bare, with hex=True "
                "and with hex=False within one cache epoch.",
        "note": "Replies are written as units with total delay per query below the timeout (the property's domain); "
                "virtual time replaces real sleeping; kernel pty/termios are real.",
    },
    {
        "property_id": "C17",
        "technique": "property-based testing with per-canvas exhaustive sub-rectangle enumeration; rows executed on the terminal model and compared with the crop of the full canvas",
        "text": "Generated image/style/identity/size/alignment/upscale/alpha configurations are rendered through the "
                "urwid widget; every sub-rectangle of canvases up to 12x8 cells (structured + sampled above) is requested "
                "via canvas.content() and CompositeCanvas trimming; each yielded row is executed on a one-line terminal "
                "model (exact column advance, SGR reset, no bleed) and compared cell for cell with the crop of the "
                "untrimmed canvas, itself anchored to an independent render placed by reference padding arithmetic; "
                "flow rows() == rendered rows.",
        "note": "Trusts vf.vt, vf.ref.padding, the plain BlockImage render (judged by C01/C02) and urwid's "
                "CompositeCanvas trimming.",
    },
    {
        "property_id": "C13",
        "level": "fault_enumeration",
        "technique": "fault enumeration: every wrapped tty system-call boundary of a generated operation is injected (before/after, KeyboardInterrupt/RuntimeError) on a real pty",
        "text": "For generated initial termios attribute sets and operations (queries, direct reads in every "
                "timeout/min/echo mode, writes, cell-size/colour/identity queries, kitty support query, "
                "Renderable.draw with echo suppressed, a raising `more` predicate) a fault-free dry run numbers every "
                "os.read/os.write/select/tcdrain/tcsetattr/tcgetattr/monotonic call; then every boundary is injected "
                "before and after the real call with KeyboardInterrupt and RuntimeError, and tcgetattr(pty slave) "
                "must equal the initial set field for field afterwards.",
        "note": "Crash points are call boundaries of the wrapped tty system calls (not arbitrary bytecodes); a fault "
                "before the call that restores the original attributes is the operation's own clean-up and is "
                "excluded (counted in the evidence). Virtual clock; real kernel pty/termios.",
    },
    {
        "property_id": "C15",
        "technique": "model-based testing of generated histories on a real pty (resize/toggle/query ops) + barrier-released concurrent first calls",
        "text": "Histories of resize (TIOCSWINSZ), win-size-swap and query toggles, cell-ratio mode changes, reads of "
                "cell size/ratio/colours/identity/kitty-workaround flag, changes of what the simulated terminal "
                "reports, and calls of cached / terminal_size_cached harness functions are checked against a model "
                "whose acceptable values are the fresh computation plus only the staleness the documentation allows; "
                "patterns disabled->compute->enabled->compute and compute->toggle->recompute are generated "
                "deliberately, also with a Process.start() (which migrates lock and cell-size cache to multi-process "
                "objects) in between, with a resize landing while a terminal_size_cached body runs, and with pairs of "
                "memoized calls whose argument tuples are distinct but easily confused (equal hashes, same keyword names). "
                "Clause toggle_schedules runs enable_queries() against reads in other threads under harness-owned "
                "schedules (every lock operation a scheduling point): afterwards no disabled-time result may be served. "
                "Concurrent first calls of a cached function must run each body exactly once.",
        "note": "Pixel-size/reported-value changes need only be noticed on a size change in cells or a toggle; only "
                "results obtained while queries were disabled must be discarded by enable_queries().",
    },
    {
        "property_id": "C06",
        "technique": "property-based testing: captured draw() output executed on a terminal model with sentinel rows; reference size-validation rules",
        "text": "Generated draws in both APIs (instrumented renderables incl. INDEFINITE streams; Block/Kitty/ITerm2 "
                "images still and animated, every quirk identity incl. the kitty versions on both sides of the 0.25.0 "
                "per-frame-deletion boundary; paddings, loops/repeat, cache, check_size, scroll, "
                "hide_cursor, echo_input, TTY or not) on generated terminal sizes and initial cursor rows; the output is "
                "replayed on the terminal model: at every flush and at the end the padded region must be where the "
                "first frame was drawn, every other cell unchanged modulo unavoidable scrolling, cursor visible at "
                "column 0 of the line below, attributes reset, no stacked earlier frames; the documented "
                "size-validation rules are matched exactly with zero bytes written on rejection. A real-pty clause "
                "confirms the in-memory capture equals the bytes on the pty master.",
        "note": "Trusts vf.vt (incl. kitty placement accumulation / konsole replacement semantics); regions taller "
                "than the terminal only get the reduced oracle (column 0, restoration); frame-clearing is judged only "
                "on identities the style supports.",
    },
    {
        "property_id": "C07",
        "level": "fault_enumeration",
        "technique": "fault enumeration: every stream write (with delivered prefixes), flush, sleep and frame-render call of a generated draw is injected; the resulting stream is judged on a terminal model",
        "text": "For generated draw configurations in both APIs a fault-free dry run numbers every stream write/flush, "
                "sleep and frame render; calls made from inside a finally:/except: body of the library's drawing "
                "functions (found via the AST of the current source + stack inspection) are its own clean-up and are "
                "excluded; every other call is injected with KeyboardInterrupt and RuntimeError, an interrupted write "
                "delivering 0, 1, len/2, len-1 or len characters. Afterwards: cursor visible, no command string or "
                "kitty chunk series left open (strict model: only ST ends a string), attributes reset, pty termios "
                "unchanged, render data finalized once, image size/frame unchanged, caller's PIL image usable, "
                "interrupted-draw hook called, animations end silently on Ctrl-C while stills re-raise.",
        "note": "Crash points are call boundaries plus write prefixes, not arbitrary bytecodes; a Ctrl-C before the "
                "first frame is rendered may either propagate or be swallowed; a cut CSI (not a graphics command) is "
                "tolerated as the property only names graphics-protocol commands.",
    },
    {
        "property_id": "C14",
        "technique": "schedule exploration with a harness-owned cooperative scheduler (generated thread schedules) + real multi-process stress with a shared-memory overlap monitor and id-carrying queries",
        "text": "Engine A replaces the library's lock objects by instrumented re-entrant locks whose acquire/release are "
                "scheduling points; 2-4 real threads run generated programs of synchronized probes (nested), "
                "UrwidImageScreen methods and Process.start() through the real start wrapper, interleaved by a "
                "generated schedule; a monitor asserts mutual exclusion, re-entrancy, absence of deadlock and lock "
                "hand-over to started processes. Clause query_schedules runs the library's real query functions "
                "(name/version, colours, cell size, kitty support, id probes) and input-draining readers on the simulated "
                "terminal under the same owned schedules (optionally with a Process.start swap in between): every query must "
                "return the reply the terminal gave to it, a pure reader must receive nothing, and no reply byte may be "
                "left unread. Clause late_replies: replies later than the query timeout must be discarded before the next query "
                "and never reach another caller. Engine B, per start method fork/spawn/forkserver, runs real parent "
                "threads, children and grandchildren on a real controlling pty: check-and-set on shared memory inside "
                "synchronized probes, and id-carrying queries that must each receive exactly their own reply. A "
                "re-entrancy clause exercises the library's real lock objects.",
        "note": "Engine A owns schedules at lock-operation granularity; engine B only samples OS process schedules (a "
                "race needing one specific cross-process interleaving may be missed); engine-B time-outs are "
                "inconclusive, never violations; starts from inside a synchronized call are excluded as documented.",
    },
    {
        "property_id": "C18",
        "technique": "model-based differential testing of generated redraw histories: long-lived screen + terminal model vs a fresh screen drawing the same canvas into a fresh model",
        "text": "Generated histories of layout edits over urwid trees holding kitty/iterm2/block image widgets (insert, "
                "remove, swap, resize, scroll, overlay cover/uncover, retarget, widget creation/deletion+gc, clear, "
                "stop/start, explicit clear_images, clear_images(now=True) routed to the same terminal, wrong-size draws, bare non-composite tops, widgets that are instances of an application subclass of "
                "UrwidImage) on kitty/konsole/wezterm/"
                "unknown identities; after each redraw the graphics-placement map and text cells of the long-lived "
                "terminal model must equal those of a fresh screen drawing the same canvas from scratch; every redraw "
                "is exactly one synchronized-update bracket with no cut control sequence; no placements after "
                "start/stop/clear; kitty z-indexes distinct and in range; the allocator is checked against a model of "
                "its documented sequence incl. exhaustion and recycling.",
        "note": "Trusts vf.vt (kitty placements persist until deleted; konsole treats iTerm2 images as placements), "
                "urwid 2.6.16 and its canvas cache; after an explicit clear_images() only left-over images are judged "
                "while the very same canvas object is drawn again (urwid skips such a draw).",
    },
    {
        "property_id": "C11",
        "technique": "model-based testing of generated operation histories with k-th-call PIL fault injection; twin-image differential for frames; /proc/self/fd and temp-dir resource invariants",
        "text": "Generated histories (<= 12 ops) over file / caller-PIL / loopback-URL sources (incl. 404 and non-image "
                "bodies), animated GIF/WEBP and still images, all three styles and format specs, iterators with every "
                "repeat/cached setting, seeks, early close, abandonment+gc, image.close / with, size changes and "
                "terminal resizes, optionally one PIL call failing at an index enumerated by a dry run; a "
                "documentation-derived iterator model predicts frames numbers, tell(), loop_no and errors; every "
                "yielded frame equals format() of a twin image at that frame; after every op the image-file "
                "descriptors, the library temp dir, the caller's PIL image and the size setting are checked.",
        "note": "Trusts CPython refcounting, /proc/self/fd, Pillow (APNG excluded because of a Pillow 11.1 rewind bug), "
                "requests/http.server on loopback; closes that rely on garbage collection of never-started iterators "
                "are tolerated and counted; iterm2 '+A' inside iterators is compared to '+W' up to the documented "
                "fallback.",
    },
]

NOT_APPLICABLE = [
    {"property_id": p, "reason": _PENDING} for p in ALL if p not in {c["property_id"] for c in CHECKS}
]
