#!/bin/bash
# kills every running check worker/runner
pkill -f "vf[.]run" ; true
