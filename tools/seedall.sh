#!/bin/bash
# tools/seedall.sh [ids...]   re-validates stored seeded changes against the current checks:
# for each seeded/<Cnn>-<k>/patch.diff: scratch copy of /repo/src + patch, ./check <Cnn> --tier quick via VF_SRC.
# Prints one line per seed (CAUGHT / MISSED); exit 1 if any is missed.  /repo itself is not touched.
cd "$(dirname "$0")/.." || exit 2
ids=${*:-$(ls seeded | sort)}
miss=0
for id in $ids; do
  P=${id%%-*}
  if grep -q '"superseded"' "seeded/$id/meta.json" 2>/dev/null; then echo "$id: superseded (see meta.json)"; continue; fi
  SCR=$(mktemp -d /tmp/vfseed.XXXXXX); cp -r /repo/src "$SCR/src"
  if ! (cd "$SCR" && git init -q . >/dev/null 2>&1; git apply "/verif/seeded/$id/patch.diff"); then echo "$id: patch does not apply"; rm -rf "$SCR"; miss=1; continue; fi
  out=$(VF_SRC="$SCR/src" VF_MUTANT=1 ./check $P --tier quick --no-evidence 2>&1); rc=$?
  rm -rf "$SCR"
  find replays -maxdepth 1 -name "$P-*.json" -newer "seeded/$id/patch.diff" -delete 2>/dev/null
  if [ $rc = 1 ]; then echo "$id: CAUGHT"; else echo "$id: MISSED (exit $rc)"; miss=1; fi
done
exit $miss
