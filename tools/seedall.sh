#!/bin/bash
# tools/seedall.sh [ids...]   re-validates stored seeded changes against the current checks:
# for each seeded/<Cnn>-<k>/patch.diff: scratch copy of /repo/src + patch, ./check <Cnn> --tier quick via VF_SRC.
# Prints one line per seed (CAUGHT / MISSED); exit 1 if any is missed.  /repo itself is not touched.
cd "$(dirname "$0")/.." || exit 2
ids=${*:-$(ls seeded | sort)}
miss=0
for id in $ids; do
  P=${id%%-*}
  if grep -q '"superseded"' "seeded/$id/meta.json" 2>/dev/null; then echo "$id: superseded (see meta.json)"; continue; fi
  if grep -q '"not_caught"' "seeded/$id/meta.json" 2>/dev/null; then echo "$id: recorded as not caught (see meta.json)"; continue; fi
  SCR=$(mktemp -d /tmp/vfseed.XXXXXX); cp -r /repo/src "$SCR/src"
  if ! (cd "$SCR" && git init -q . >/dev/null 2>&1; git apply "/verif/seeded/$id/patch.diff"); then echo "$id: patch does not apply"; rm -rf "$SCR"; miss=1; continue; fi
  # the checks recorded as catching this seed (meta.json); normally the property's own check
  Q=$(/venv/bin/python -c "import json,sys; m=json.load(open('seeded/$id/meta.json')); print(' '.join(k for k,v in m['checks'].items() if isinstance(v,dict) and v.get('exit')==1) or '$P')")
  rc=0; by=""
  for q in $Q; do
    out=$(VF_SRC="$SCR/src" VF_MUTANT=1 ./check $q --tier quick --no-evidence 2>&1); r=$?
    find replays -maxdepth 1 -name "$q-*.json" -newer "seeded/$id/patch.diff" -delete 2>/dev/null
    if [ $r = 1 ]; then rc=1; by="$by $q"; else by="$by $q(exit $r)"; fi
    [ $r = 1 ] && [ "$q" = "$P" ] && break
  done
  rm -rf "$SCR"
  if [ $rc = 1 ]; then echo "$id: CAUGHT by$by"; else echo "$id: MISSED ($by)"; miss=1; fi
done
exit $miss
