#!/bin/bash
# tools/seeds.sh <Cnn> [seeds...]: runs the quick check at several seeds without touching evidence
P=$1; shift; S=${@:-1 2 3 4 5}
cd /verif
for s in $S; do
  out=$(VERIF_SEED=$s ./check $P --tier quick --no-evidence 2>&1); rc=$?
  echo "seed=$s rc=$rc $(echo "$out" | grep -E '^(C[0-9]+ tier|VIOLATION|HARNESS|KNOWN)' | head -3 | tr '\n' ' ')"
done
