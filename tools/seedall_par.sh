#!/bin/bash
# tools/seedall_par.sh [N]  runs tools/seedall.sh over all stored seeds, N at a time (default 3); env VERIF_SEED is passed on.
cd "$(dirname "$0")/.." || exit 2
N=${1:-3}
ls seeded | sort | xargs -P "$N" -n 4 tools/seedall.sh
