#!/usr/bin/env python3
"""Prints the markdown table of seeded changes (DESIGN.md 14.5) from seeded/*/meta.json."""
import glob, json, os, re, sys
rows = []
for d in sorted(glob.glob(os.path.join(os.path.dirname(__file__), "..", "seeded", "C*-*"))):
    m = json.load(open(os.path.join(d, "meta.json")))
    title = ""
    rd = os.path.join(d, "README.md")
    if os.path.exists(rd):
        for ln in open(rd):
            if ln.strip():
                title = ln.strip().lstrip("# ").strip()
                break
    res = ", ".join(f"{k}: {'caught' if v.get('exit') == 1 else 'MISSED (exit %s)' % v.get('exit')}" for k, v in m["checks"].items() if isinstance(v, dict))
    if "not_caught" in m:
        res += " (NOT caught: outside the modelled domain, see meta.json)"
    if "superseded" in m:
        res += " (superseded by a later fix, see meta.json)"
    rows.append((m["id"], title[:110].replace("|", "/"), m["files_changed"].strip(), res))
sel = sys.argv[1:] 
print("| seed | change (sub-agent's title) | files | quick check |\n|---|---|---|---|")
for r in rows:
    if not sel or r[0].rsplit("-", 1)[1] in sel:
        print("| " + " | ".join(r) + " |")
