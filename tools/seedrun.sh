#!/bin/bash
# tools/seedrun.sh <worktree> <i> <Cnn> [--as <j>] [extra property ids to also run...]
# Confirms a seeded change (seed<i>.diff + demo<i>.py in <worktree>) and runs the checks against it:
#  1. clean worktree: demo passes;  2. patch applied in the worktree: suite still 1178 passed, demo fails;
#  3. patch applied to /repo: ./check <Cnn> --tier quick (must exit 1), then /repo restored.
# Stores patch, demo and meta.json under /verif/seeded/<Cnn>-<i>/.
set -u
WT=$1; I=$2; P=$3; shift 3
J=$I
if [ "${1:-}" = "--as" ]; then J=$2; shift 2; fi
EXTRA="$*"
OUT=/verif/seeded/$P-$J
mkdir -p "$OUT"
cd "$WT" || exit 2
git checkout -q -- src 2>/dev/null
export PYTHONPATH="$WT/src"
clean_demo=$(/venv/bin/python demo$I.py >/dev/null 2>&1; echo $?)
git apply seed$I.diff || { echo "cannot apply seed$I.diff"; exit 2; }
suite=$(/venv/bin/python -m pytest -q -p no:cacheprovider --timeout=900 --continue-on-collection-errors 2>&1 | tail -1)
seeded_demo=$(/venv/bin/python demo$I.py >/dev/null 2>&1; echo $?)
git checkout -q -- src
unset PYTHONPATH
cp seed$I.diff "$OUT/patch.diff"; cp demo$I.py "$OUT/demo.py"; [ -f seed$I.md ] && cp seed$I.md "$OUT/README.md"
cd /verif
results="{"
APPLY_OK=0
if [ -n "${SEED_SCRATCH:-}" ]; then
  # a background run is using /repo: use a scratch copy of /repo's sources instead (same effect for the checks)
  SCR=$(mktemp -d /tmp/vfseed.XXXXXX); cp -r /repo/src "$SCR/src"
  (cd "$SCR" && git init -q . >/dev/null 2>&1; git apply "$OUT/patch.diff") && APPLY_OK=1
  export VF_SRC="$SCR/src"
  HOW="scratch copy of /repo/src with the patch applied, passed to the checks as VF_SRC"
else
  git -C /repo apply "$OUT/patch.diff" && APPLY_OK=1
  HOW="git -C /repo apply, ./check <id> --tier quick, git -C /repo checkout -- ."
fi
if [ $APPLY_OK = 1 ]; then
  for q in $P $EXTRA; do
    out=$(./check $q --tier quick --no-evidence 2>&1); rc=$?
    msg=$(echo "$out" | grep -B1 -m1 '^VIOLATION' | head -1 | cut -c1-300 | tr '"\\' "' ")
    results="$results\"$q\": {\"exit\": $rc, \"first\": \"$msg\"},"
    find /verif/replays -maxdepth 1 -name "$q-*.json" -newer "$OUT/patch.diff" -delete 2>/dev/null
  done
  if [ -n "${SEED_SCRATCH:-}" ]; then rm -rf "$SCR"; unset VF_SRC; else git -C /repo checkout -- .; fi
else
  results="$results\"error\": \"patch does not apply to /repo\","
fi
results="${results%,}}"
files=$(grep '^+++ b/' "$OUT/patch.diff" | sed 's#+++ b/##' | tr '\n' ' ')
cat > "$OUT/meta.json" <<EOF
{
 "id": "$P-$J",
 "property": "$P",
 "origin": "written by a fresh sub-agent that was given only the property text and a scratch worktree",
 "files_changed": "$files",
 "confirmation": {
  "demo_exit_on_clean_tree": $clean_demo,
  "demo_exit_with_patch": $seeded_demo,
  "test_suite_with_patch": "$suite",
  "how": "tools/seedrun.sh: worktree with PYTHONPATH=<wt>/src; baseline pytest command; then $HOW"
 },
 "checks": $results
}
EOF
echo "$P-$J: clean_demo=$clean_demo seeded_demo=$seeded_demo suite='$suite' checks=$results" | cut -c1-600
git -C /repo status --short | head -3
