#!/bin/bash
# Offline, idempotent: puts hypothesis (if /venv lacks it) and jsonschema into /verif/.deps
set -e
cd "$(dirname "$0")"
W=/opt/veriftools/wheels
mkdir -p .deps
need=""
/venv/bin/python -c "import hypothesis" 2>/dev/null || need="$need hypothesis"
PYTHONPATH=.deps /venv/bin/python -c "import jsonschema" 2>/dev/null || need="$need jsonschema"
if [ -n "$need" ]; then
  /venv/bin/pip install --quiet --no-index --find-links "$W" --target .deps $need
fi
PYTHONPATH=.deps /venv/bin/python -c "import hypothesis, jsonschema, PIL, urwid; print('setup ok: hypothesis', hypothesis.__version__)"
