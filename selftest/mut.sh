#!/bin/bash
# usage: selftest/mut.sh <Cnn> <file-relative-to-src/term_image> <python-regex-or-literal old> <new> [extra check args]
# Applies one literal replacement to a scratch copy of /repo/src, runs the quick check, expects exit 1.
set -u
PROP=$1; FILE=$2; OLD=$3; NEW=$4; shift 4
D=$(mktemp -d /tmp/vfmut.XXXXXX)
cp -r /repo/src "$D/src"
/venv/bin/python - "$D/src/term_image/$FILE" "$OLD" "$NEW" <<'PY'
import sys
p, old, new = sys.argv[1:4]
s = open(p).read()
if old not in s:
    print("MUTANT-ERROR: pattern not found:", old); sys.exit(3)
open(p, "w").write(s.replace(old, new, 1))
PY
rc=$?
if [ $rc -ne 0 ]; then rm -rf "$D"; exit 3; fi
cd /verif
out=$(VF_SRC="$D/src" VF_MUTANT=1 ./check "$PROP" --tier quick --no-evidence "$@" 2>&1); rc=$?
rm -rf "$D"
first=$(echo "$out" | grep -B1 -m1 '^VIOLATION' | head -1 | cut -c1-220)
if [ $rc -eq 1 ]; then echo "CAUGHT  [$PROP] $FILE: '$OLD' -> '$NEW' :: $first";
else echo "MISSED($rc) [$PROP] $FILE: '$OLD' -> '$NEW'"; echo "$out" | tail -5; fi
# remove replay files produced by the mutant
find /verif/replays -maxdepth 1 -name "$PROP-*.json" -newer /verif/selftest/mut.sh -delete 2>/dev/null
exit 0
