"""Strict decoders for RAW kitty-graphics and iTerm2 inline-image escape strings.

`vf.vt` executes a render the way a (lenient) terminal would; this module judges the framing
of the string itself, as the protocol documents state it:

kitty graphics protocol (https://sw.kovidgoyal.net/kitty/graphics-protocol/)
  ``ESC _ G <control> ; <payload> ESC \\`` with ``control = key=value(,key=value)*``;
  a payload larger than 4096 base64 characters must be split into chunks of at most 4096
  characters, every chunk except the last a multiple of 4 long; the first chunk carries all
  control keys and ``m=1``, every following chunk carries ONLY ``m`` (``m=1``, last ``m=0``);
  with ``o=z`` the decoded payload is zlib-deflated; for ``f=24``/``f=32`` the inflated
  payload is ``s*v*3`` / ``s*v*4`` bytes of RGB / RGBA pixels.

iTerm2 inline images (https://iterm2.com/documentation-images.html)
  ``ESC ] 1337 ; File = key=value(;key=value)* : <base64> (BEL | ESC \\)``.

Nothing here imports the code under test.
"""

from __future__ import annotations

import base64
import re
import zlib

CHUNK = 4096


class ProtoError(Exception):
    """The string violates the protocol framing."""

    def __init__(self, msg: str, kind: str = "framing"):
        super().__init__(msg)
        self.msg = msg
        self.kind = kind


_TOKEN = re.compile(
    r"\x1b_G(?P<kctl>[^;\x1b]*)(?P<ksep>;?)(?P<kpay>[^\x1b]*)\x1b\\"
    r"|\x1b\]1337;File=(?P<iargs>[^:\x1b\x07]*):(?P<ipay>[^\x1b\x07]*)(?P<iend>\x1b\\|\x07)"
    r"|\x1b\[(?P<csi>[0-9;?]*)(?P<fin>[@-~])"
    r"|(?P<lf>\n)"
    r"|(?P<text>[^\x1b\n]+)"
)
_B64 = re.compile(r"[A-Za-z0-9+/]*={0,2}\Z")
_KV = re.compile(r"([A-Za-z])=([^,=;]+)\Z")


def tokens(s: str) -> list[dict]:
    """Splits a render string into tokens; anything that is not a complete, known token is a
    framing error (an unterminated or truncated escape string, a stray ESC ...)."""
    out = []
    i, n = 0, len(s)
    while i < n:
        m = _TOKEN.match(s, i)
        if not m:
            raise ProtoError(f"unparseable data at offset {i}: {s[i:i + 40]!r}", "token")
        if m.group("kctl") is not None:
            out.append({"t": "kitty", "control": m.group("kctl"), "payload": m.group("kpay"),
                        "has_sep": bool(m.group("ksep")), "pos": i})
        elif m.group("iargs") is not None:
            out.append({"t": "iterm2", "args": m.group("iargs"), "payload": m.group("ipay"), "pos": i})
        elif m.group("fin") is not None:
            out.append({"t": "csi", "params": m.group("csi"), "final": m.group("fin"), "pos": i})
        elif m.group("lf") is not None:
            out.append({"t": "lf", "pos": i})
        else:
            out.append({"t": "text", "text": m.group("text"), "pos": i})
        i = m.end()
    return out


def parse_control(ctl: str) -> dict:
    keys: dict[str, str] = {}
    if ctl == "":
        raise ProtoError("graphics command without control data", "control")
    for kv in ctl.split(","):
        m = _KV.match(kv)
        if not m:
            raise ProtoError(f"malformed control item {kv!r} in {ctl[:80]!r}", "control")
        if m.group(1) in keys:
            raise ProtoError(f"duplicate control key {m.group(1)!r} in {ctl[:80]!r}", "control")
        keys[m.group(1)] = m.group(2)
    return keys


def kitty_items(toks: list[dict]) -> list[dict]:
    """Groups the kitty commands of a token list into items, enforcing the chunking rules.

    Items: ``{"kind": "delete", "keys"}`` or ``{"kind": "transmission", "keys" (first chunk's,
    without m), "chunks": [str], "m": [str|None], "index": position among all tokens}``."""
    items = []
    pending = None
    for ti, tok in enumerate(toks):
        if tok["t"] != "kitty":
            if pending is not None and tok["t"] != "text":
                # only the chunks of one transmission may follow each other; cursor movement or
                # newlines in between would be executed by the terminal mid-transmission
                raise ProtoError(f"{tok['t']} token between the chunks of one transmission", "interleaved")
            if pending is not None:
                raise ProtoError("text between the chunks of one transmission", "interleaved")
            continue
        keys = parse_control(tok["control"])
        payload = tok["payload"]
        if not _B64.match(payload):
            raise ProtoError(f"payload is not base64: {payload[:40]!r}", "base64")
        if len(payload) > CHUNK:
            raise ProtoError(f"payload chunk of {len(payload)} characters (> {CHUNK})", "chunk_size")
        if pending is not None:
            if set(keys) != {"m"}:
                raise ProtoError(f"continuation chunk carries keys {sorted(keys)} (only 'm' allowed)", "chunk_keys")
            if keys["m"] not in ("0", "1"):
                raise ProtoError(f"bad m={keys['m']!r}", "m_flag")
            pending["chunks"].append(payload)
            pending["m"].append(keys["m"])
            if keys["m"] == "0":
                items.append(pending)
                pending = None
            continue
        if set(keys) <= {"m", "q"}:
            raise ProtoError(f"continuation chunk ({tok['control']}) with no chunked transmission in progress",
                             "m_flag")
        action = keys.get("a", "t")
        if action == "d":
            if payload:
                raise ProtoError("delete command with a payload", "control")
            items.append({"kind": "delete", "keys": keys, "index": ti})
            continue
        if action not in ("t", "T"):
            raise ProtoError(f"unexpected graphics action a={action}", "control")
        m = keys.get("m")
        if m not in (None, "0", "1"):
            raise ProtoError(f"bad m={m!r}", "m_flag")
        first = {k: v for k, v in keys.items() if k != "m"}
        item = {"kind": "transmission", "keys": first, "chunks": [payload], "m": [m], "index": ti}
        if m == "1":
            pending = item
        else:
            items.append(item)
    if pending is not None:
        raise ProtoError(f"chunked transmission never terminated with m=0 ({len(pending['chunks'])} chunks, "
                         "the terminal keeps waiting for data)", "m_flag")
    return items


def check_chunking(item: dict) -> None:
    """Chunk sizes of one transmission (m consistency is enforced by kitty_items)."""
    chunks = item["chunks"]
    for i, c in enumerate(chunks):
        last = i == len(chunks) - 1
        if len(c) > CHUNK:
            raise ProtoError(f"chunk {i} has {len(c)} characters (> {CHUNK})", "chunk_size")
        if not last and len(c) % 4:
            raise ProtoError(f"non-final chunk {i} has {len(c)} characters (not a multiple of 4)", "chunk_size")
        if not last and "=" in c:
            raise ProtoError(f"base64 padding inside non-final chunk {i}", "base64")
    # (splitting more finely than necessary, or an empty chunk, is allowed by the protocol)


def kitty_payload(item: dict) -> bytes:
    """Decoded (and inflated, with o=z) payload of a transmission."""
    joined = "".join(item["chunks"])
    if len(joined) % 4:
        raise ProtoError(f"total base64 length {len(joined)} is not a multiple of 4", "base64")
    try:
        raw = base64.b64decode(joined, validate=True)
    except Exception as e:
        raise ProtoError(f"payload is not valid base64: {e}", "base64")
    o = item["keys"].get("o")
    if o is not None:
        if o != "z":
            raise ProtoError(f"unknown compression o={o}", "control")
        try:
            d = zlib.decompressobj()
            raw2 = d.decompress(raw)
            if not d.eof or d.unused_data:
                raise ValueError("truncated stream or trailing bytes")
            raw = raw2
        except Exception as e:
            raise ProtoError(f"o=z payload does not inflate: {e}", "zlib")
    return raw


def iterm2_image(tok: dict) -> dict:
    """``{"keys": {...}, "data": bytes}`` of one iTerm2 File= command."""
    keys: dict[str, str] = {}
    for kv in tok["args"].split(";"):
        k, eq, v = kv.partition("=")
        if not eq or not k:
            raise ProtoError(f"malformed iTerm2 argument {kv!r}", "control")
        if k in keys:
            raise ProtoError(f"duplicate iTerm2 argument {k!r}", "control")
        keys[k] = v
    payload = tok["payload"]
    if not _B64.match(payload) or len(payload) % 4:
        raise ProtoError(f"iTerm2 payload is not padded base64 (length {len(payload)})", "base64")
    try:
        data = base64.b64decode(payload, validate=True)
    except Exception as e:
        raise ProtoError(f"iTerm2 payload is not valid base64: {e}", "base64")
    return {"keys": keys, "data": data}
