"""Shared Hypothesis strategies (all produce plain JSON-able data) and builders that turn
the data into real objects."""

from __future__ import annotations

import hashlib
import json
import os

from hypothesis import strategies as st

MODES = ["1", "L", "LA", "P", "PA", "RGB", "RGBA", "CMYK", "HSV"]
ALPHA_MODES = ["LA", "PA", "RGBA", "P"]
ALPHA_LANDMARKS = [0, 1, 39, 40, 41, 127, 128, 254, 255]

byte = st.integers(0, 255)
rgb = st.tuples(byte, byte, byte).map(list)
alpha_val = st.one_of(st.sampled_from(ALPHA_LANDMARKS), byte)


@st.composite
def still_image(draw, max_w=12, max_h=12, modes=MODES, min_w=1, min_h=1, size=None):
    mode = draw(st.sampled_from(modes))
    if size is None:
        w = draw(st.integers(min_w, max_w))
        h = draw(st.integers(min_h, max_h))
    else:
        w, h = size
    ncol = draw(st.integers(1, 4))
    opaque = draw(st.booleans())
    palette = [
        draw(rgb) + [255 if opaque else draw(alpha_val)] for _ in range(ncol)
    ]
    pattern = draw(st.sampled_from(["uniform", "hruns", "vruns", "checker", "defect", "noise", "noise"]))
    n = w * h
    if ncol == 1 or pattern == "uniform":
        idx = [0] * n
    elif pattern == "hruns":
        idx = []
        while len(idx) < n:
            idx += [draw(st.integers(0, ncol - 1))] * draw(st.integers(1, max(1, w)))
        idx = idx[:n]
    elif pattern == "vruns":
        col = []
        while len(col) < w:
            col += [draw(st.integers(0, ncol - 1))] * draw(st.integers(1, max(1, w // 2 + 1)))
        idx = (col[:w]) * h
    elif pattern == "checker":
        idx = [((i % w) + (i // w)) % 2 % ncol for i in range(n)]
    elif pattern == "defect":
        idx = [0] * n
        for _ in range(draw(st.integers(1, 3))):
            idx[draw(st.integers(0, n - 1))] = draw(st.integers(1, ncol - 1))
    else:
        idx = draw(st.lists(st.integers(0, ncol - 1), min_size=n, max_size=n))
    spec = {"mode": mode, "w": w, "h": h, "palette": palette, "idx": idx}
    if mode == "P" and draw(st.booleans()):
        spec["transparency"] = draw(st.integers(0, 3))
    return spec


def build_image(spec):
    """PIL image in spec['mode'] from the palette/index description."""
    from PIL import Image

    w, h = spec["w"], spec["h"]
    pal = spec["palette"]
    base = Image.new("RGBA", (w, h))
    base.putdata([tuple(pal[i]) for i in spec["idx"]])
    mode = spec["mode"]
    if mode == "RGBA":
        return base
    if mode == "1":
        return base.convert("RGB").convert("1", dither=Image.Dither.NONE)
    if mode == "P":
        img = base.convert("RGB").convert("P", palette=Image.Palette.ADAPTIVE, colors=8)
        if "transparency" in spec:
            img.info["transparency"] = spec["transparency"]
        return img
    if mode == "PA":
        p = base.convert("RGB").convert("P", palette=Image.Palette.ADAPTIVE, colors=8)
        pa = p.convert("PA")
        pa.putalpha(base.getchannel("A"))
        return pa
    if mode in ("CMYK", "HSV", "L", "RGB"):
        return base.convert("RGB").convert(mode) if mode != "RGB" else base.convert("RGB")
    if mode == "LA":
        return base.convert("LA")
    return base.convert(mode)


@st.composite
def anim_image(draw, max_frames=5, max_w=8, max_h=8, fmts=("GIF", "PNG", "WEBP")):
    n = draw(st.integers(2, max_frames))
    w = draw(st.integers(1, max_w))
    h = draw(st.integers(1, max_h))
    fmt = draw(st.sampled_from(list(fmts)))
    cols = [draw(rgb) for _ in range(n)]
    return {"anim": True, "fmt": fmt, "n": n, "w": w, "h": h, "colors": cols,
            "duration": draw(st.sampled_from([20, 100]))}


def anim_frames(spec):
    from PIL import Image

    frames = []
    for i, c in enumerate(spec["colors"]):
        f = Image.new("RGB", (spec["w"], spec["h"]), tuple(c))
        # make frames pairwise distinct even for equal colours: mark pixel 0 with the index
        f.putpixel((0, 0), ((c[0] + 40 * (i + 1)) % 256, (c[1] + 90 * (i + 1)) % 256, (17 * i) % 256))
        frames.append(f)
    return frames


def anim_file(spec) -> str:
    """Writes (once per process) the animated image file described by spec; returns path."""
    from . import env

    key = hashlib.sha1(json.dumps(spec, sort_keys=True).encode()).hexdigest()[:16]
    ext = {"GIF": "gif", "PNG": "png", "WEBP": "webp"}[spec["fmt"]]
    path = os.path.join(env.tmpdir(), f"anim-{key}.{ext}")
    if not os.path.exists(path):
        frames = anim_frames(spec)
        kw = dict(save_all=True, append_images=frames[1:], duration=spec["duration"], loop=0)
        if spec["fmt"] == "WEBP":
            kw["lossless"] = True
        frames[0].save(path, spec["fmt"], **kw)
    return path


def alpha_spec(alpha):
    """The transparency part of a format specifier denoting `alpha` (None when a float has no plain
    '.digits' decimal form that reads back exactly)."""
    if alpha is None:
        return "#"
    if alpha == "#":
        return "##"
    if isinstance(alpha, str):
        return alpha
    r = repr(float(alpha))
    if r.startswith("0.") and "e" not in r and float(r[1:]) == alpha:
        return "#" + r[1:]
    return None


def is_pil_apng_defect(exc) -> bool:
    """Pillow 11.1 itself raises SyntaxError('APNG contains frame sequence errors') when an APNG is sought
    backwards from a middle frame and then forwards again (pure-PIL reproduction: seek 1, load, seek 0, load,
    seek 1).  Not the library's doing: checks count such cases as excluded."""
    return isinstance(exc, SyntaxError) and "APNG contains frame sequence errors" in str(exc)


def still_file(spec, fmt="PNG") -> str:
    from . import env

    key = hashlib.sha1(json.dumps(spec, sort_keys=True).encode()).hexdigest()[:16]
    path = os.path.join(env.tmpdir(), f"still-{key}.{fmt.lower()}")
    if not os.path.exists(path):
        img = build_image(spec)
        if img.mode in ("HSV", "PA", "LA") and fmt != "PNG" or img.mode in ("HSV", "PA", "CMYK"):
            img = img.convert("RGBA" if img.mode in ("PA", "LA") else "RGB")
        img.save(path, fmt)
    return path


# ---------------------------------------------------------------------- configurations

def identity():
    from .env import IDENTITIES

    return st.sampled_from(IDENTITIES).map(list)


@st.composite
def term_config(draw, min_cols=1, max_cols=120, min_rows=1, max_rows=50, cell_known=None):
    cfg = {
        "cols": draw(st.integers(min_cols, max_cols)),
        "rows": draw(st.integers(min_rows, max_rows)),
    }
    known = draw(st.booleans()) if cell_known is None else cell_known
    cfg["cell"] = [draw(st.integers(1, 12)), draw(st.integers(1, 24))] if known else None
    ident = draw(identity())
    cfg["name"], cfg["version"] = ident
    cfg["fg"] = draw(st.one_of(st.none(), rgb))
    cfg["bg"] = draw(st.one_of(st.none(), rgb))
    return cfg


def alpha_setting():
    """None | float in [0,1) | '#' | '#rrggbb'"""
    thr = st.one_of(
        st.sampled_from([0.0, 40 / 255, 0.5, 1 / 255, 254 / 255, 0.999]),
        st.integers(0, 254).map(lambda k: k / 255),
        st.floats(0.0, 0.999, allow_nan=False),
    )
    hexc = rgb.map(lambda c: "#%02x%02x%02x" % tuple(c))
    return st.one_of(st.none(), thr, st.just("#"), hexc)


def kitty_style(allow_blend=True):
    d = {
        "method": st.sampled_from([None, "lines", "whole", "LINES", "Whole"]),
        "z_index": st.one_of(st.just(0), st.sampled_from([2**31 - 1, -(2**31 - 1), 1, -1]), st.integers(-1000, 1000)),
        "mix": st.booleans(),
        "compress": st.integers(0, 9),
    }
    if allow_blend:
        d["blend"] = st.booleans()
    return st.fixed_dictionaries({}, optional=d)


def iterm2_style():
    return st.fixed_dictionaries(
        {},
        optional={
            "method": st.sampled_from([None, "lines", "whole", "anim", "WHOLE"]),
            "mix": st.booleans(),
            "compress": st.integers(0, 9),
        },
    )
