"""CLI: python -m vf.run <Cnn> [--tier quick|thorough] [--replay FILE] [--clause NAME] [--jobs N]

Exit codes: 0 held (possibly KNOWN-FINDING lines), 1 VIOLATION, 2 harness error / inconclusive.
"""

from __future__ import annotations

import argparse
import importlib
import json
import math
import os
import sys
import time
import traceback

from . import core
from .core import Clause, HarnessError, Recorder, Violation


class _StopShrink(KeyboardInterrupt):
    pass


def _load(prop: str):
    return importlib.import_module(f"vf.props.{prop.lower()}")


def _clauses(mod) -> dict[str, Clause]:
    return {c.name: c for c in mod.CLAUSES}


def _run_case(clause: Clause, case, rec: Recorder):
    """Runs one case.  Returns None, or ('known', entry) ; raises Violation."""
    rec.begin(case)
    try:
        clause.check(case, rec)
    except Violation as v:
        k = rec.match_known(v)
        if k is not None:
            rec.excluded_known += 1
            rec.known_hits[k.get("id", "?")] += 1
            return ("known", k)
        raise
    return None


def _task(args):
    """Worker: one (clause, shard) or one replay file.  Runs in a fresh process."""
    kind, prop, tier, seed, payload = args
    t0 = time.time()
    out = {"kind": kind, "clause": None, "violations": [], "error": None, "rec": None}
    try:
        _fix_std_streams()
        mod = _load(prop)
        if hasattr(mod, "setup"):
            mod.setup()
        clauses = _clauses(mod)
        known = core.load_known()
        if kind == "replay":
            data = core.load_replay(payload)
            cname = data["clause"]
            out["clause"] = "replay:" + cname
            rec = Recorder(known, prop, cname)
            clause = clauses[cname]
            try:
                _run_case(clause, data["case"], rec)
            except Violation as v:
                out["violations"].append(
                    {"clause": cname, "case": data["case"], "msg": v.msg, "signature": v.signature,
                     "replay": payload}
                )
            out["rec"] = rec.result()
        elif kind == "enum":
            cname, shard, nshards = payload
            out["clause"] = cname
            clause = clauses[cname]
            rec = Recorder(known, prop, cname)
            nviol = 0
            if clause.enum_sharded:
                it = ((shard, c) for c in clause.enumerate(tier, shard, nshards))
            else:
                it = ((i % nshards, c) for i, c in enumerate(clause.enumerate(tier)))
            for sh, case in it:
                if sh != shard:
                    continue
                try:
                    _run_case(clause, case, rec)
                except Violation as v:
                    nviol += 1
                    if nviol <= 3:  # distinct enumerated failures; keep the first few
                        out["violations"].append(
                            {"clause": cname, "case": case, "msg": v.msg, "signature": v.signature}
                        )
            rec.count("enum_violations", nviol)
            out["rec"] = rec.result()
        else:  # hypothesis
            cname, shard, nshards, n = payload
            out["clause"] = cname
            clause = clauses[cname]
            rec = Recorder(known, prop, cname)
            out["violations"] = _hyp(prop, clause, tier, seed, shard, n, rec)
            out["rec"] = rec.result()
    except Exception:
        out["error"] = traceback.format_exc()
    out["wall"] = time.time() - t0
    return out


def _fix_std_streams():
    """multiprocessing closes sys.stdin in children but leaves sys.__stdin__ pointing at the
    closed object; term_image.utils probes sys.__std*__ at import time."""
    import warnings

    try:
        sys.__stdin__.fileno()
    except (ValueError, AttributeError):
        sys.__stdin__ = sys.stdin
    warnings.filterwarnings("ignore", message="It seems this process is not running within a terminal")


def _hyp(prop, clause: Clause, tier, seed, shard, n, rec: Recorder):
    import hypothesis
    from hypothesis import HealthCheck, Phase, given, settings

    fail = {}
    state = {"after_fail": 0}
    cap = 400 if tier == "quick" else 4000

    @hypothesis.seed(core.mix_seed(seed, prop, clause.name, shard))
    @settings(
        max_examples=n,
        database=None,
        deadline=None,
        derandomize=False,
        report_multiple_bugs=False,
        suppress_health_check=list(HealthCheck),
        phases=[Phase.generate, Phase.shrink],
    )
    @given(clause.strategy())
    def test(case):
        if fail:
            state["after_fail"] += 1
            if state["after_fail"] > cap:
                raise _StopShrink()
        try:
            _run_case(clause, case, rec)
        except Violation as v:
            fail.update(case=case, msg=v.msg, signature=v.signature)
            raise

    try:
        test()
    except Violation:
        pass
    except _StopShrink:
        pass
    except hypothesis.errors.Flaky as e:  # nondeterministic failure: report what we saw
        if not fail:
            raise HarnessError(f"flaky: {e}")
        fail["msg"] = "[flaky under replay] " + fail["msg"]
    if fail:
        return [{"clause": clause.name, "case": fail["case"], "msg": fail["msg"],
                 "signature": fail["signature"]}]
    return []


def _plan(prop, mod, tier, seed, only_clause, jobs):
    tasks = []
    for path in core.committed_replays(prop):
        tasks.append(("replay", prop, tier, seed, path))
    for c in mod.CLAUSES:
        if only_clause and c.name != only_clause:
            continue
        if c.enumerate is not None:
            size = c.enum_size(tier) if c.enum_size else 0
            nsh = max(1, min(c.max_shards, jobs, math.ceil(size / c.enum_per_shard) if size else jobs))
            for s in range(nsh):
                tasks.append(("enum", prop, tier, seed, (c.name, s, nsh)))
        if c.strategy is not None:
            n = c.budget.get(tier, c.budget.get("quick", 100))
            if tier == "quick":
                # clause budgets were sized for ~5 s quick runs; the quick tier may take about half a minute
                n = int(n * float(os.environ.get("VF_QUICK_SCALE", getattr(mod, "META", {}).get("quick_scale", 4))))
            else:
                # the thorough tier may take several minutes per property on 16 cores
                n = int(n * float(os.environ.get("VF_THOROUGH_SCALE", getattr(mod, "META", {}).get("thorough_scale", 1))))
            if n <= 0:
                continue
            nsh = max(1, min(c.max_shards, jobs, n // max(1, c.min_per_shard)))
            per = math.ceil(n / nsh)
            for s in range(nsh):
                tasks.append(("hyp", prop, tier, seed, (c.name, s, nsh, per)))
    return tasks


def main(argv=None) -> int:
    argv = sys.argv[1:] if argv is None else argv
    if argv[:1] == ["--worker"]:
        _worker_main(argv[1], argv[2])
        return 0
    ap = argparse.ArgumentParser()
    ap.add_argument("prop")
    ap.add_argument("--tier", default=os.environ.get("VERIF_TIER", "quick"), choices=["quick", "thorough"])
    ap.add_argument("--replay")
    ap.add_argument("--clause")
    ap.add_argument("--jobs", type=int, default=int(os.environ.get("VF_JOBS", "16")))
    ap.add_argument("--no-evidence", action="store_true")
    a = ap.parse_args(argv)
    prop = a.prop.upper()
    try:
        seed = int(os.environ.get("VERIF_SEED", "1"))
    except ValueError:
        seed = core.mix_seed(os.environ.get("VERIF_SEED"))
    t0 = time.time()
    # one scratch directory per run: everything the workers, the library under test (its import-time temp
    # directory) and child processes create goes below it and is removed when the run ends
    import atexit
    import shutil
    import tempfile

    run_tmp = tempfile.mkdtemp(prefix="vfrun-")
    atexit.register(shutil.rmtree, run_tmp, ignore_errors=True)
    os.environ["TMPDIR"] = run_tmp
    tempfile.tempdir = None
    try:
        mod = _load(prop)
    except Exception:
        traceback.print_exc()
        print(f"HARNESS-ERROR property={prop} cannot load check module")
        return 2

    if a.replay:
        res = _in_child(("replay", prop, a.tier, seed, os.path.abspath(a.replay)))
        if res["error"]:
            print(res["error"])
            print(f"HARNESS-ERROR property={prop} replay failed to run")
            return 2
        if res["violations"]:
            v = res["violations"][0]
            print(f"  {v['clause']}: {v['msg']}")
            print(f"VIOLATION property={prop} replay={a.replay}")
            return 1
        for kid, n in (res["rec"] or {}).get("known_hits", {}).items():
            print(f"KNOWN-FINDING: property={prop} {kid}")
        print(f"OK property={prop} replay={a.replay} holds")
        return 0

    tasks = _plan(prop, mod, a.tier, seed, a.clause, a.jobs)
    results = _run_tasks(tasks, a.jobs, a.tier)
    if hasattr(mod, "teardown_parent"):
        mod.teardown_parent()

    return _report(prop, mod, a, seed, results, time.time() - t0)


def _in_child(task):
    return _run_tasks([task], 1, "quick")[0]


def _spawn(task, timeout):
    """Runs one task in a fresh interpreter (python -m vf.run --worker): complete isolation of
    the code under test's global state, no fork-with-threads hazards."""
    import pickle
    import subprocess
    import tempfile

    fd, path = tempfile.mkstemp(prefix="vf-task-", suffix=".pkl")
    os.close(fd)
    out_path = path + ".out"
    with open(path, "wb") as f:
        pickle.dump(task, f)
    base = {"kind": task[0], "clause": None, "violations": [], "error": None, "rec": None, "wall": 0.0}
    try:
        try:
            cmd = [sys.executable, "-m", "vf.run", "--worker", path, out_path]
            if os.environ.get("VF_COVERAGE"):  # tools/coverage.sh: line coverage of the library under the checks
                cmd = [sys.executable, "-m", "coverage", "run", "--parallel-mode", "--branch",
                       "--data-file", os.path.join(os.environ["VF_COVERAGE"], ".coverage"),
                       "--source", "term_image", "-m", "vf.run", "--worker", path, out_path]
            p = subprocess.run(
                cmd,
                stdin=subprocess.DEVNULL, stdout=subprocess.PIPE, stderr=subprocess.STDOUT,
                timeout=timeout, cwd=core.HERE,
            )
        except subprocess.TimeoutExpired:
            base["error"] = f"worker timed out after {timeout}s (inconclusive): task={task[0]} {task[4]!r}"
            return base
        if os.path.exists(out_path):
            with open(out_path, "rb") as f:
                return pickle.load(f)
        base["error"] = f"worker exited rc={p.returncode} without a result:\n" + p.stdout.decode(errors="replace")[-3000:]
        return base
    finally:
        for q in (path, out_path):
            try:
                os.remove(q)
            except OSError:
                pass


def _run_tasks(tasks, jobs, tier):
    from concurrent.futures import ThreadPoolExecutor

    timeout = int(os.environ.get("VF_TASK_TIMEOUT", "1500" if tier == "quick" else "14400"))
    with ThreadPoolExecutor(max_workers=max(1, min(jobs, len(tasks) or 1))) as ex:
        return list(ex.map(lambda t: _spawn(t, timeout), tasks))


def _worker_main(path, out_path):
    import pickle

    with open(path, "rb") as f:
        task = pickle.load(f)
    res = _task(task)
    tmp = out_path + ".tmp"
    with open(tmp, "wb") as f:
        pickle.dump(res, f)
    os.replace(tmp, out_path)


def _report(prop, mod, a, seed, results, wall) -> int:
    known = {k.get("id"): k for k in core.load_known()}
    errors = [r for r in results if r["error"]]
    per_clause: dict[str, dict] = {}
    nontriv: set = set()
    disjoint = 0
    evaluations = 0
    samples = []
    labels: dict[str, int] = {}
    excluded_known = 0
    known_hits: dict[str, int] = {}
    extra: dict[str, int] = {}
    violations = []
    for r in results:
        violations.extend(r["violations"])
        rec = r["rec"]
        if not rec:
            continue
        cname = r["clause"] or "?"
        pc = per_clause.setdefault(
            cname, {"evaluations": 0, "nontrivial": set(), "disjoint": 0, "labels": {}, "wall_s": 0.0}
        )
        pc["evaluations"] += rec["evaluations"]
        pc["nontrivial"].update(rec["nontrivial"])
        pc["disjoint"] += rec["nontrivial_disjoint"]
        pc["wall_s"] += r.get("wall", 0.0)
        for k, v in rec["labels"].items():
            pc["labels"][k] = pc["labels"].get(k, 0) + v
            labels[f"{cname}:{k}"] = labels.get(f"{cname}:{k}", 0) + v
        evaluations += rec["evaluations"]
        nontriv.update((cname.replace("replay:", ""), x) for x in rec["nontrivial"])
        disjoint += rec["nontrivial_disjoint"]
        excluded_known += rec["excluded_known"]
        for k, v in rec["known_hits"].items():
            known_hits[k] = known_hits.get(k, 0) + v
        for k, v in rec["extra"].items():
            extra[k] = extra.get(k, 0) + v
        for s in rec["samples"]:
            if sum(1 for x in samples if x["clause"] == s["clause"]) < 3 and len(samples) < 24:
                samples.append(s)

    # floors (non-vacuity)
    starved = []
    clauses = _clauses(mod)
    for cname, pc in per_clause.items():
        c = clauses.get(cname)
        if not c or not pc["evaluations"]:
            continue
        for lab, frac in c.floors.items():
            got = pc["labels"].get(lab, 0) / pc["evaluations"]
            if got < frac:
                starved.append(f"{cname}:{lab} {got:.3f} < {frac}")

    # write replay files for violations (dedupe)
    seen = set()
    vio_lines = []
    per_clause_n: dict[str, int] = {}
    for v in sorted(violations, key=lambda v: (v["clause"], len(core.canon(v["case"])))):
        key = core.h64([v["clause"], v["case"]])
        sigkey = core.h64([v["clause"], v.get("signature") or v["msg"][:60]])
        if key in seen or sigkey in seen:
            continue
        seen.add(key)
        seen.add(sigkey)
        per_clause_n[v["clause"]] = per_clause_n.get(v["clause"], 0) + 1
        if per_clause_n[v["clause"]] > 6:
            continue
        path = v.get("replay") or core.write_replay(prop, v["clause"], v["case"], v["msg"], v.get("signature"))
        vio_lines.append((v, os.path.relpath(path, core.HERE)))

    meta = getattr(mod, "META", {})
    level = meta.get("level", "exploration")
    clause_cov = {
        c: {
            "evaluations": pc["evaluations"],
            "distinct_nontrivial": len(pc["nontrivial"]) + pc["disjoint"],
            "labels": dict(sorted(pc["labels"].items())),
            "wall_s": round(pc["wall_s"], 2),
            "exhaustive": bool(clauses.get(c) and clauses[c].enumerate is not None and clauses[c].strategy is None),
        }
        for c, pc in sorted(per_clause.items())
    }
    evidence = {
        "property_id": prop,
        "tier": a.tier,
        "seed": seed,
        "level": level,
        "coverage": {
            "evaluations": evaluations,
            "distinct_nontrivial": len(nontriv) + disjoint,
            "rule": meta.get("rule", ""),
            "samples": samples or [{"note": "no non-trivial case sampled"}],
            "exhaustive": bool(meta.get("exhaustive", False)),
            "clauses": clause_cov,
            "excluded_known": excluded_known,
            "known_findings_hit": known_hits,
            "counters": extra,
            "starved_classes": starved,
            "harness_errors": len(errors),
        },
        "assumptions": core.TRUSTED_BASE + list(meta.get("assumptions", [])),
        "wall_s": round(wall, 2),
        "violations": len(vio_lines),
    }
    if not a.no_evidence and not a.clause:
        os.makedirs(core.EVIDENCE_DIR, exist_ok=True)
        with open(os.path.join(core.EVIDENCE_DIR, f"{prop}.json"), "w") as f:
            json.dump(evidence, f, indent=1, sort_keys=True)
            f.write("\n")

    print(f"{prop} tier={a.tier} seed={seed} evaluations={evaluations} "
          f"distinct_nontrivial={len(nontriv) + disjoint} wall={wall:.1f}s")
    for c, cc in clause_cov.items():
        print(f"  clause {c}: n={cc['evaluations']} nontrivial={cc['distinct_nontrivial']} {cc['wall_s']}s")
    for kid, n in sorted(known_hits.items()):
        what = known.get(kid, {}).get("what", kid)
        print(f"KNOWN-FINDING: property={prop} {kid}: {what} (hit {n}x, excluded from search)")
    if errors:
        for r in errors[:3]:
            print(f"--- harness error in clause {r['clause']} ---\n{r['error']}")
    for v, path in vio_lines:
        print(f"  {v['clause']}: {v['msg'][:2000]}")
        print(f"VIOLATION property={prop} replay={path}")
    if vio_lines:
        return 1
    if errors:
        print(f"HARNESS-ERROR property={prop} {len(errors)} task(s) failed")
        return 2
    if starved:
        print(f"HARNESS-ERROR property={prop} starved generator classes: {starved}")
        return 2
    print(f"OK property={prop} held on everything explored")
    return 0


if __name__ == "__main__":
    sys.exit(main())
