"""Helpers for C18 (urwid image screen): pure-data layout edits and the reference model of the
kitty z-index allocator of image widgets.  Nothing here imports urwid or the code under test.

Layout specs are JSON trees:

  box nodes   img{w} | solid{c} | filler{child:flow,valign} | pile{k:"box",items} | cols{k:"box",items,div}
              | overlay{top,bottom,align,width,valign,height} | listbox{items,focus,valign}
              | linebox{child} | padding{child,left,right} | attr{child}
  flow nodes  img{w} | text{s} | divider{c} | pile{k:"flow",items} | cols{k:"flow",items,div}
              | linebox{child} | padding{child,left,right} | attr{child}

`items` is always a list of [sizing, child] with sizing ["weight", n] | ["given", n] | ["pack"].
"""

from __future__ import annotations

import copy

Z_MAX = 2**31 - 1
Z_MIN = -(2**31 - 1)  # -(2**31) is excluded (reserved by the library for animations)


# ------------------------------------------------------------------------------------ z-index model

class ZAllocModel:
    """Documented behaviour of the allocator: indexes are handed out in the order
    1, -1, 2, -2, ..., 2**31 - 1, -(2**31 - 1) (2**32 - 2 of them); an index returns to the
    free pool when its widget is finalized and may be handed out again; when the sequence
    is exhausted and the pool is empty, UrwidImageError is raised."""

    END = 2**31

    def __init__(self, next_z=1):
        self.next = next_z
        self.free: set[int] = set()
        self.live: set[int] = set()

    @staticmethod
    def succ(z):
        return -z if z > 0 else -z + 1

    def can_alloc(self):
        return bool(self.free) or self.next != self.END

    def alloc_observed(self, z):
        """Records that the library handed out *z*; returns None or a complaint."""
        if not isinstance(z, int) or isinstance(z, bool):
            return f"z-index {z!r} is not an int"
        if not Z_MIN <= z <= Z_MAX:
            return f"z-index {z} outside [-(2**31 - 1), 2**31 - 1]"
        if z in self.live:
            return f"z-index {z} handed out while another live widget holds it"
        if z in self.free:
            self.free.discard(z)
        elif z == self.next and self.next != self.END:
            if self.free:
                pass  # taking a fresh index although recycled ones exist is allowed
            self.next = self.succ(z)
        else:
            return (f"z-index {z} is neither a recycled index {sorted(self.free)[:6]} nor the next of the "
                    f"sequence ({self.next})")
        self.live.add(z)
        return None

    def release(self, z):
        self.live.discard(z)
        self.free.add(z)


# ------------------------------------------------------------------------------------ spec walking

def children(node):
    """[(key, index_or_None, child)] of a node."""
    t = node["t"]
    if t in ("pile", "cols", "listbox"):
        return [("items", i, it[1]) for i, it in enumerate(node["items"])]
    if t in ("filler", "linebox", "padding", "attr"):
        return [("child", None, node["child"])]
    if t == "overlay":
        return [("top", None, node["top"]), ("bottom", None, node["bottom"])]
    return []


def walk(node):
    yield node
    for _, _, ch in children(node):
        yield from walk(ch)


def containers(root, kinds=("pile", "cols", "listbox")):
    return [n for n in walk(root) if n["t"] in kinds]


def leaves(root, t="img"):
    return [n for n in walk(root) if n["t"] == t]


def child_ctx(node, sizing):
    """Context (box/flow) of a child with the given sizing inside container *node*."""
    t = node["t"]
    if t == "listbox":
        return "flow"
    if t == "pile":
        if node["k"] == "flow" or sizing[0] == "pack":
            return "flow"
        return "box"
    return node["k"]  # cols


def n_weight(node):
    return sum(1 for sz, _ in node["items"] if sz[0] == "weight")


# ------------------------------------------------------------------------------------ edits

def edit(layout, op):
    """Applies one layout edit; returns (new_layout, applied: bool).  Pure."""
    lay = copy.deepcopy(layout)
    k = op["op"]
    if k == "set":
        return copy.deepcopy(op["layout"]), True
    if k == "cover":
        ov = dict(op["ov"])
        ov.update(t="overlay", top=copy.deepcopy(op["top"]), bottom=lay)
        return ov, True
    if k == "uncover":
        if lay["t"] == "overlay":
            return lay["bottom"], True
        return lay, False
    if k == "move_cover":
        ovs = [n for n in walk(lay) if n["t"] == "overlay"]
        if not ovs:
            return lay, False
        ovs[op["c"] % len(ovs)].update(op["ov"])
        return lay, True
    if k == "retarget":
        ls = leaves(lay)
        if not ls:
            return lay, False
        ls[op["leaf"] % len(ls)]["w"] = op["w"]
        return lay, True
    if k == "scroll":
        lbs = containers(lay, ("listbox",))
        if not lbs:
            return lay, False
        lb = lbs[op["c"] % len(lbs)]
        lb["focus"] = op["focus"]
        lb["valign"] = op["valign"]
        return lay, True
    cs = containers(lay)
    if not cs:
        return lay, False
    c = cs[op["c"] % len(cs)]
    items = c["items"]
    if k == "swap":
        if len(items) < 2:
            return lay, False
        a, b = op["a"] % len(items), op["b"] % len(items)
        if a == b:
            b = (a + 1) % len(items)
        items[a], items[b] = items[b], items[a]
        return lay, True
    if k == "insert":
        if len(items) >= 6:
            return lay, False
        it = op["item"]
        if c["t"] == "listbox" or (c["t"] == "pile" and (c["k"] == "flow" or it["pack"])):
            new = [["pack"], copy.deepcopy(it["flow"])]
        elif c["k"] == "flow":  # flow columns
            new = [list(it["sz"]), copy.deepcopy(it["flow"])]
        else:
            new = [list(it["sz"]), copy.deepcopy(it["box"])]
        items.insert(op["at"] % (len(items) + 1), new)
        return lay, True
    if k == "remove":
        if len(items) < 2:
            return lay, False
        at = op["at"] % len(items)
        if c["t"] == "pile" and c["k"] == "box" and items[at][0][0] == "weight" and n_weight(c) < 2:
            return lay, False
        del items[at]
        if c["t"] == "listbox":
            c["focus"] = c["focus"] % len(items)
        return lay, True
    if k == "resize":
        at = op["at"] % len(items)
        if items[at][0][0] == "pack":
            return lay, False
        if c["t"] == "pile" and c["k"] == "box" and items[at][0][0] == "weight" and op["sz"][0] != "weight" \
                and n_weight(c) < 2:
            return lay, False
        items[at][0] = list(op["sz"])
        return lay, True
    raise ValueError(k)


def drop_widget(layout, idx, n_pool):
    """The pool entry *idx* (of n_pool) disappears: leaves pointing at it become plain
    text/fill; leaves pointing past it are shifted so that they keep their widget."""
    lay = copy.deepcopy(layout)

    def fix(node, ctx):
        if node["t"] == "img":
            w = node["w"] % n_pool
            if w == idx:
                node.clear()
                node.update({"t": "solid", "c": "~"} if ctx == "box" else {"t": "text", "s": "~"})
            else:
                node["w"] = w - (w > idx)
            return
        t = node["t"]
        if t in ("pile", "cols", "listbox"):
            for sz, ch in node["items"]:
                fix(ch, child_ctx(node, sz))
        elif t == "filler":
            fix(node["child"], "flow")
        elif t in ("linebox", "padding", "attr"):
            fix(node["child"], ctx)
        elif t == "overlay":
            fix(node["top"], "box")
            fix(node["bottom"], "box")

    fix(lay, "box")
    return lay
