"""Reference padding arithmetic, from the documentation of AlignedPadding / ExactPadding and
docs/source/guide/formatting.rst.

padded dimension = max(render dimension, absolute minimum dimension); the excess D is split
left/top = D * {0, 1/2, 1} floored (LEFT/TOP, CENTER/MIDDLE, RIGHT/BOTTOM), remainder to the
other side; relative (non-positive) minimum d resolves to max(terminal + d, 1).
"""

ALIGN = {0: (0, 1), 1: (1, 2), 2: (1, 1)}
H_CHARS = {"<": 0, "|": 1, ">": 2, None: 1}
V_CHARS = {"^": 0, "-": 1, "_": 2, None: 1}


def resolve(d, term):
    return d if d > 0 else max(term + d, 1)


def aligned(render, minimum, h_align, v_align):
    """-> (left, top, right, bottom) for absolute minimum dimensions."""
    (w, h), (mw, mh) = render, minimum
    dx, dy = max(mw - w, 0), max(mh - h, 0)
    n, d = ALIGN[h_align]
    left = dx * n // d
    n, d = ALIGN[v_align]
    top = dy * n // d
    return left, top, dx - left, dy - top
