"""Reference recogniser for render format specifiers, written from
docs/source/guide/formatting.rst and the class docstrings of KittyImage / ITerm2Image.

    [h_align][width][.[v_align][height]][#[threshold|bgcolor]][+style]

* if the "." is present, at least one of v_align and height must be present
* threshold = "." digits+ ; bgcolor = "#" | six hex digits
* style (kitty)  = [L|W][z<int>][m0|1][c0-9]   (z in the signed 32-bit range excluding -(2**31))
* style (iterm2) = [L|W|A][m0|1][c0-9]
* style (block)  = nothing (any "+..." is invalid); "+" must be followed by something
"""

from __future__ import annotations

DIGITS = "0123456789"
HEX = "0123456789abcdefABCDEF"
DEFAULT_ALPHA = 40 / 255


class Reject(Exception):
    def __init__(self, part, why):
        super().__init__(why)
        self.part = part  # "base" | "style" | "style_value"
        self.why = why


def _digits(s, i):
    j = i
    while j < len(s) and s[j] in DIGITS:
        j += 1
    return s[i:j], j


def parse_style(style: str, text: str) -> dict:
    """Returns the style arguments denoted by the style part (defaults omitted)."""
    if text == "":
        raise Reject("base", "'+' without a style specifier")
    if style == "block":
        raise Reject("style", "block has no style-specific fields")
    args = {}
    i = 0
    methods = {"L": "lines", "W": "whole"}
    if style == "iterm2":
        methods["A"] = "anim"
    if i < len(text) and text[i] in methods:
        args["method"] = methods[text[i]]
        i += 1
    zval = None
    if style == "kitty" and i < len(text) and text[i] == "z":
        j = i + 1
        neg = j < len(text) and text[j] == "-"
        if neg:
            j += 1
        d, k = _digits(text, j)
        if not d:
            raise Reject("style", "z without an integer")
        zval = -int(d) if neg else int(d)
        i = k
    if i + 1 < len(text) and text[i] == "m" and text[i + 1] in "01":
        if text[i + 1] == "1":
            args["mix"] = True
        i += 2
    if i + 1 < len(text) and text[i] == "c" and text[i + 1] in DIGITS:
        if text[i + 1] != "4":
            args["compress"] = int(text[i + 1])
        i += 2
    if i != len(text):
        raise Reject("style", f"unparsable style remainder {text[i:]!r}")
    if zval is not None:
        if not -(2**31) < zval < 2**31:
            raise Reject("style_value", "z-index out of range")
        if zval != 0:
            args["z_index"] = zval
    return args


def parse(spec: str, style: str):
    """Returns (h_align, width, v_align, height, alpha, style_args) where width/height are
    ints or None (absent), alpha is DEFAULT_ALPHA / None / float / "#" / "#rrggbb".
    Raises Reject."""
    i, n = 0, len(spec)
    h = None
    if i < n and spec[i] in "<|>":
        h = spec[i]
        i += 1
    d, i = _digits(spec, i)
    width = int(d) if d else None
    v = height = None
    if i < n and spec[i] == ".":
        i += 1
        if i < n and spec[i] in "^-_":
            v = spec[i]
            i += 1
        d, i = _digits(spec, i)
        height = int(d) if d else None
        if v is None and height is None:
            raise Reject("base", "'.' without v_align or height")
    alpha = DEFAULT_ALPHA
    if i < n and spec[i] == "#":
        i += 1
        alpha = None
        if i < n and spec[i] == ".":
            d, j = _digits(spec, i + 1)
            if not d:
                raise Reject("base", "'#.' without digits")
            alpha = float("." + d)
            i = j
        elif i < n and spec[i] == "#":
            alpha = "#"
            i += 1
        elif i + 6 <= n and all(c in HEX for c in spec[i : i + 6]):
            alpha = "#" + spec[i : i + 6]
            i += 6
    style_args = {}
    if i < n and spec[i] == "+":
        style_args = parse_style(style, spec[i + 1 :])
        i = n
    if i != n:
        raise Reject("base", f"unparsable remainder {spec[i:]!r}")
    return h, width, v, height, alpha, style_args


def resolve_pad(width, height, cols, rows):
    """Documented padding rule: absent width = terminal width (relative 0), absent height =
    terminal height - 2; a non-positive given value d means max(terminal + d, 1)."""
    w = 0 if width is None else width
    hh = -2 if height is None else height
    pw = w if w > 0 else max(cols + w, 1)
    ph = hh if hh > 0 else max(rows + hh, 1)
    return pw, ph
