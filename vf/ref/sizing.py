"""Reference facts about automatic sizing, in exact rational arithmetic.

Units.  text family: one column = 1 pixel wide, one line = 2 pixels tall, pixel ratio =
2 * cell ratio.  graphics family: one cell = (cw, ch) pixels ((1, 2) when the cell size is
unknown), pixel ratio 1.  A render of w_px x h_px pixels, each drawn with aspect `pr`
(width/height), preserves the source aspect (ow x oh) iff  h_px == w_px * pr * oh / ow.
"""

from __future__ import annotations

from fractions import Fraction as F


def resolve_frame(frame, cols, rows):
    fc, fl = frame
    return (fc if fc > 0 else max(cols + fc, 1), fl if fl > 0 else max(rows + fl, 1))


class Geometry:
    def __init__(self, family, ow, oh, cell, ratio):
        self.ow, self.oh = ow, oh
        if family == "block":
            self.cw, self.ch = 1, 2
            self.pr = F(ratio) * 2
        else:
            self.cw, self.ch = cell if cell else (1, 2)
            self.pr = F(1)

    # exact real-valued aspect-preserving dimensions, in cells
    def height_for_width(self, W):
        return F(W * self.cw) * self.pr * self.oh / self.ow / self.ch

    def width_for_height(self, H):
        return F(H * self.ch) * self.ow / (self.oh * self.pr) / self.cw

    def original(self):
        return F(self.ow, self.cw), F(self.oh) * self.pr / self.ch

    def fits_px(self, fcols, flines):
        """Does the source, scaled for the pixel ratio, fit the frame's pixel area?
        Returns True / False / None (None = inside the unspecified half-pixel rounding band)."""
        fw, fh = fcols * self.cw, flines * self.ch
        if self.ow > fw:
            return False
        hp = F(self.oh) * self.pr
        if hp <= fh:
            return True
        # exactly +1/2 is a rounding tie (half-even vs half-up); the library works in floats, so a value
        # within float rounding distance of the tie (e.g. 5 * (0.45 * 2)) is a tie too: unspecified
        if hp > fh + F(1, 2) + F(1, 10**9):
            return False
        return None


def close(d: int, e: F) -> bool:
    """|d - e| < 1, never below 1 (e < 1 => d == 1)."""
    if e < 1:
        return d == 1
    return abs(F(d) - e) < 1
