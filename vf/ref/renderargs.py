"""Reference model of the render arguments / render data API (property C16).

Written from the documentation only (docs/source/api/renderable.rst and the docstrings of
`RenderArgs`, `ArgsNamespace`, `RenderData`, `DataNamespace`); it never imports term_image.

Vocabulary
  * a *tree* of render classes: class index i in [0, n) with parent `parents[i]` in [-1, i);
    index -1 (ROOT) is `Renderable` itself (no render arguments; render data fields given
    by the caller).
  * `args_fields[i]` is None (class i has no render arguments) or a list of (name, default).
  * `data_fields[i]` is None or a list of field names.
  * a namespace is `NS(cls, values)`; a set of render arguments is `RA(cls, {cls_k: values})`
    with one entry for every class in the MRO of `cls` that has render arguments.
  * rejected operations raise `Reject(kinds)`: the set of documented exception names, any
    one of which is an acceptable outcome (more than one only when several documented error
    conditions hold at once and the documentation gives no order).
"""

from __future__ import annotations

ROOT = -1
UNSET = ("<uninitialized>",)  # sentinel for render data fields

E_INC_ARGS = "IncompatibleRenderArgsError"
E_INC_NS = "IncompatibleArgsNamespaceError"
E_NO_ARGS = "NoArgsNamespaceError"
E_NO_DATA = "NoDataNamespaceError"
E_UNK_ARGS = "UnknownArgsFieldError"
E_UNK_DATA = "UnknownDataFieldError"
E_UNINIT = "UninitializedDataFieldError"
E_TYPE = "TypeError"
E_VALUE = "ValueError"
E_ATTR = "AttributeError"


class Reject(Exception):
    def __init__(self, *kinds: str):
        super().__init__(", ".join(sorted(kinds)))
        self.kinds = frozenset(kinds)


class NS:
    """A render argument namespace: associated class + field values (definition order)."""

    __slots__ = ("cls", "values")
    kind = "ns"

    def __init__(self, cls: int, values: tuple):
        self.cls = cls
        self.values = tuple(values)

    def __repr__(self):
        return f"NS({self.cls}, {self.values!r})"


class RA:
    """A set of render arguments: associated class + {class with args in MRO: values}."""

    __slots__ = ("cls", "ns")
    kind = "args"

    def __init__(self, cls: int, ns: dict):
        self.cls = cls
        self.ns = dict(ns)

    def __repr__(self):
        return f"RA({self.cls}, {self.ns!r})"


class RD:
    """A set of render data: associated class + {class with data in MRO: {field: value}}.
    Mutable (the only mutable thing in the model), never shared between RD objects."""

    __slots__ = ("cls", "ns")
    kind = "data"

    def __init__(self, cls: int, ns: dict):
        self.cls = cls
        self.ns = ns


def values_equal(a: tuple, b: tuple) -> bool:
    """'equal field values' -- plain ==, so 1 == 1.0 == True."""
    return len(a) == len(b) and all(x == y for x, y in zip(a, b))


def same_typed(x, y) -> bool:
    """Identity-grade comparison of two primitive values (distinguishes 1 / 1.0 / True)."""
    return type(x) is type(y) and x == y


def values_same(a: tuple, b: tuple) -> bool:
    return len(a) == len(b) and all(same_typed(x, y) for x, y in zip(a, b))


class Tree:
    def __init__(self, parents, args_fields, data_fields, root_data_fields=()):
        self.n = len(parents)
        self.parents = list(parents)
        for i, p in enumerate(self.parents):
            if not (ROOT <= p < i):
                raise ValueError(f"bad parent {p} for class {i}")
        self.args_fields = list(args_fields)
        self.data_fields = list(data_fields)
        self.root_data_fields = list(root_data_fields)

    def add(self, parent: int, args_fields=None, data_fields=None) -> int:
        """Appends a new leaf class; returns its index."""
        if not (ROOT <= parent < self.n):
            raise ValueError(f"bad parent {parent}")
        self.parents.append(parent)
        self.args_fields.append(args_fields)
        self.data_fields.append(data_fields)
        self.n += 1
        return self.n - 1

    # -- hierarchy ----------------------------------------------------------------
    def mro(self, c: int) -> list:
        """c, its parent, ..., ROOT."""
        out = []
        while c != ROOT:
            out.append(c)
            c = self.parents[c]
        out.append(ROOT)
        return out

    def depth(self, c: int) -> int:
        return len(self.mro(c)) - 1

    def is_sub(self, a: int, b: int) -> bool:
        """issubclass(a, b)"""
        return b in self.mro(a)

    def related(self, a: int, b: int) -> bool:
        return self.is_sub(a, b) or self.is_sub(b, a)

    def has_args(self, c: int) -> bool:
        return c != ROOT and self.args_fields[c] is not None

    def has_data(self, c: int) -> bool:
        return c == ROOT or self.data_fields[c] is not None

    def args_mro(self, c: int) -> list:
        return [k for k in self.mro(c) if self.has_args(k)]

    def data_mro(self, c: int) -> list:
        return [k for k in self.mro(c) if self.has_data(k)]

    def field_names(self, c: int) -> list:
        return [name for name, _ in self.args_fields[c]]

    def data_names(self, c: int) -> list:
        return list(self.root_data_fields if c == ROOT else self.data_fields[c])

    def defaults(self, c: int) -> tuple:
        return tuple(default for _, default in self.args_fields[c])

    # -- namespaces ---------------------------------------------------------------
    def default_ns(self, c: int) -> NS:
        return NS(c, self.defaults(c))

    def make_ns(self, c: int, values, fields: dict) -> NS:
        """ArgsNamespace(*values, **fields) for the namespace class of c."""
        names = self.field_names(c)
        errs = set()
        if len(values) > len(names):
            errs.add(E_TYPE)
        if set(fields) - set(names):
            errs.add(E_UNK_ARGS)
        if set(fields) & set(names[: len(values)]):
            errs.add(E_TYPE)
        if errs:
            raise Reject(*errs)
        out = list(self.defaults(c))
        for i, v in enumerate(values):
            out[i] = v
        for k, v in fields.items():
            out[names.index(k)] = v
        return NS(c, tuple(out))

    def ns_update(self, ns: NS, fields: dict) -> NS:
        names = self.field_names(ns.cls)
        if set(fields) - set(names):
            raise Reject(E_UNK_ARGS)
        out = list(ns.values)
        for k, v in fields.items():
            out[names.index(k)] = v
        return NS(ns.cls, tuple(out))

    def ns_getattr(self, ns: NS, name: str):
        names = self.field_names(ns.cls)
        if name not in names:
            raise Reject(E_UNK_ARGS)
        return ns.values[names.index(name)]

    # -- sets of render arguments ---------------------------------------------------
    def default_args(self, c: int) -> RA:
        return RA(c, {k: self.defaults(k) for k in self.args_mro(c)})

    def construct(self, c: int, init, nss) -> RA:
        """RenderArgs(c, init, *nss): namespaces (last wins) > init > defaults."""
        errs = set()
        if init is not None and not self.is_sub(c, init.cls):
            errs.add(E_INC_ARGS)
        for ns in nss:
            if not self.is_sub(c, ns.cls):
                errs.add(E_INC_NS)
        if errs:
            raise Reject(*errs)
        out = self.default_args(c)
        if init is not None:
            for k, v in init.ns.items():
                out.ns[k] = v
        for ns in nss:
            out.ns[ns.cls] = ns.values
        return out

    def getitem(self, ra: RA, c) -> NS:
        """ra[c]; c may be the string 'notclass' for a non-render-class argument."""
        if not isinstance(c, int):
            raise Reject(E_TYPE)
        if not self.is_sub(ra.cls, c):
            if self.has_args(c):
                raise Reject(E_VALUE)
            raise Reject(E_VALUE, E_NO_ARGS)  # both documented conditions hold
        if not self.has_args(c):
            raise Reject(E_NO_ARGS)
        return NS(c, ra.ns[c])

    def update_ns(self, ra: RA, nss) -> RA:
        return self.construct(ra.cls, ra, nss)

    def update_fields(self, ra: RA, c, fields: dict) -> RA:
        ns = self.getitem(ra, c)
        return self.construct(ra.cls, ra, [self.ns_update(ns, fields)])

    def convert(self, ra: RA, c: int) -> RA:
        if c == ra.cls:
            return RA(ra.cls, ra.ns)
        if self.is_sub(c, ra.cls):  # to a child: everything is compatible
            return self.construct(c, ra, [])
        if self.is_sub(ra.cls, c):  # to a parent: only the namespaces compatible with c
            keep = self.args_mro(c)
            return RA(c, {k: v for k, v in ra.ns.items() if k in keep})
        raise Reject(E_VALUE)

    def combine(self, left, right) -> RA:
        """left | right where at least one operand is a namespace.

        ns | ns   : same class -> the RIGHT operand wins (both for __or__ and __ror__);
                    otherwise the result is for the most derived class.
        ns | args, args | ns : the namespace takes precedence over the set's namespace for
                    the same class; result for the most derived class.
        """
        if left.kind == "ns" and right.kind == "ns":
            if left.cls == right.cls:
                return self.construct(left.cls, None, [right])
            if self.is_sub(left.cls, right.cls):
                return self.construct(left.cls, None, [left, right])
            if self.is_sub(right.cls, left.cls):
                return self.construct(right.cls, None, [left, right])
            raise Reject(E_INC_NS)
        ns, ra = (left, right) if left.kind == "ns" else (right, left)
        if ra.kind != "args":
            raise Reject(E_TYPE)
        if self.is_sub(ns.cls, ra.cls):
            return self.construct(ns.cls, ra, [ns])
        if self.is_sub(ra.cls, ns.cls):
            return self.construct(ra.cls, ra, [ns])
        raise Reject(E_INC_ARGS)

    def pos(self, ns: NS) -> RA:
        return self.construct(ns.cls, None, [ns])

    def to_render_args(self, ns: NS, c) -> RA:
        return self.construct(ns.cls if c is None else c, None, [ns])

    def contains(self, ra: RA, ns: NS) -> bool:
        return ns.cls in ra.ns and values_equal(ra.ns[ns.cls], ns.values)

    # -- equality -------------------------------------------------------------------
    def equal(self, x, y) -> bool:
        if x.kind != y.kind:
            return False
        if x.kind == "ns":
            return x.cls == y.cls and values_equal(x.values, y.values)
        if x.kind == "args":
            return (
                x.cls == y.cls
                and set(x.ns) == set(y.ns)
                and all(values_equal(v, y.ns[k]) for k, v in x.ns.items())
            )
        return x is y

    def default_mask(self, ra: RA) -> str:
        """'d'/'n' per constituent (most derived first): equals the default or not."""
        return "".join(
            "d" if values_equal(ra.ns[k], self.defaults(k)) else "n" for k in self.args_mro(ra.cls)
        )

    # -- render data ------------------------------------------------------------------
    def make_data(self, c: int) -> RD:
        return RD(c, {k: {f: UNSET for f in self.data_names(k)} for k in self.data_mro(c)})

    def data_getitem(self, rd: RD, c) -> dict:
        if not isinstance(c, int):
            raise Reject(E_TYPE)
        if not self.is_sub(rd.cls, c):
            if self.has_data(c):
                raise Reject(E_VALUE)
            raise Reject(E_VALUE, E_NO_DATA)
        if not self.has_data(c):
            raise Reject(E_NO_DATA)
        return rd.ns[c]

    def data_get(self, rd: RD, c, name: str):
        fields = self.data_getitem(rd, c)
        if name not in fields:
            raise Reject(E_UNK_DATA)
        if fields[name] is UNSET:
            raise Reject(E_UNINIT)
        return fields[name]

    def data_set(self, rd: RD, c, name: str, value) -> None:
        fields = self.data_getitem(rd, c)
        if name not in fields:
            raise Reject(E_UNK_DATA)
        fields[name] = value

    def data_update(self, rd: RD, c, new: dict) -> None:
        fields = self.data_getitem(rd, c)
        if set(new) - set(fields):
            raise Reject(E_UNK_DATA)  # nothing is updated
        fields.update(new)
