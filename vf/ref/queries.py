"""Reference for what the terminal-query functions must report, given what the (simulated)
terminal says.  Written from the docstrings of term_image.utils, the XParseColor man page
(rgb:<r>/<g>/<b>, each component h | hh | hhh | hhhh, scaled independently), and the
"supported terminal emulators" notes of KittyImage / ITerm2Image."""

from __future__ import annotations


def parse_color(spec: str):
    comps = spec.partition(":")[2].split("/")
    return tuple(int(c, 16) * 255 // (16 ** len(c) - 1) for c in comps)


def colors(profile, enabled=True):
    if not enabled:
        return (None, None)
    fg = profile.get("fg")
    bg = profile.get("bg")
    if not profile.get("da1", True):
        pass  # replies still arrive (the library just waits for the timeout)
    return (parse_color(fg) if fg else None, parse_color(bg) if bg else None)


def hexs(c):
    return c and "#%02x%02x%02x" % c


def name_version(profile, environ, enabled=True):
    xv = profile.get("xtversion") if enabled else None
    if xv:
        return (xv[1].lower(), xv[2])
    name = environ.get("TERM_PROGRAM")
    return (name and name.lower(), environ.get("TERM_PROGRAM_VERSION"))


def cell_size(profile, win, swap, environ, enabled=True):
    """win = (cols, rows, xpix, ypix) as set with TIOCSWINSZ."""
    cols, rows, xpix, ypix = win
    area = None
    if xpix and ypix:
        area = (xpix, ypix)
    elif enabled:
        w16 = profile.get("winops16")
        w14 = profile.get("winops14")
        if w16:
            h, w = w16
            return None if 0 in (w, h) else (w, h)
        if w14:
            h, w = w14
            if environ.get("SHELL", "").startswith("/data/data/com.termux/"):
                h *= 2
            area = (w, h)
    if area is None:
        return None
    if swap:
        area = area[::-1]
    cs = (area[0] // cols, area[1] // rows)
    return None if 0 in cs else cs


def vtuple(version):
    try:
        return tuple(map(int, version.split(".")))
    except (ValueError, AttributeError):
        return None


def kitty_supported(profile, environ, enabled=True):
    name, version = name_version(profile, environ, enabled)
    if name == "iterm2":
        return False
    if not enabled or profile.get("kitty") != "OK":
        return False
    if name == "kitty":
        vt = vtuple(version) if version else None
        return vt is not None and vt >= (0, 20, 0)
    return name == "konsole"


def iterm2_supported(profile, environ, enabled=True):
    name, version = name_version(profile, environ, enabled)
    if name in ("iterm2", "wezterm"):
        return True
    if name == "konsole":
        vt = vtuple(version) if version else None
        return vt is not None and vt >= (22, 4, 0)
    return False


def auto_class(profile, environ, enabled=True):
    if kitty_supported(profile, environ, enabled):
        return "KittyImage"
    if iterm2_supported(profile, environ, enabled):
        return "ITerm2Image"
    return "BlockImage"
