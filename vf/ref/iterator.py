"""Reference model of RenderIterator, written from its class docstring, the docstrings of
seek()/set_*() and the "next frame" footnote:

* iteration starts at frame 0; the "next frame number" is what the next render produces;
* definite seeks are immediate; START: off, CURRENT: next+off, END: count+off-1; valid iff the
  result is in [0, count); invalid -> ValueError, nothing changes;
* a loop is consumed only by passing the end (next frame number == count when next() is called);
  `loop` decreases when the first frame of a later loop is rendered and is 0 after exhaustion;
* every set_* applies from the next rendered frame; operations on a finalized iterator raise
  FinalizedIteratorError (next(): StopIteration);
* INDEFINITE: loops = 1, no caching; only the last pending seek counts and is handed to the
  renderable exactly once; first render gets (0, START); otherwise (0, CURRENT).

Where the documentation is silent the model follows the implementation and says so:
after the last frame of a loop the next frame number is `count` until the next render wraps.
"""

from __future__ import annotations

from . import padding as RP

START, CURRENT, END = 0, 1, 2


class IterModel:
    def __init__(self, kind, n, w, h, loops, dur, pad, fill, salt, term):
        self.kind = kind  # "definite" | "stream"
        self.n = n  # frame count or stream length
        self.size = (w, h)
        self.loop = loops if kind == "definite" else 1
        self.dur = dur  # int or "DYNAMIC"
        self.salt = salt
        self.closed = False
        self.next = 0
        self.term = term
        self.set_pad(pad, fill)
        # stream
        self.pending = (0, START)
        self.pos = 0  # renderable-side stream position
        self.seek_log = []  # expected (frame_offset, whence) seen by the renderable per render

    # -- settings ------------------------------------------------------------------
    def set_pad(self, spec, fill):
        if spec[0] == "aligned":
            spec = ["aligned", RP.resolve(spec[1], self.term[0]), RP.resolve(spec[2], self.term[1]), spec[3], spec[4]]
        self.pad = spec
        self.fill = fill

    def sides(self):
        if self.pad[0] == "exact":
            return tuple(self.pad[1:5])
        return RP.aligned(self.size, (self.pad[1], self.pad[2]), self.pad[3], self.pad[4])

    # -- operations: each returns the expected observation ------------------------------
    def op_next(self):
        if self.closed:
            return ("stop",)
        if self.kind == "definite":
            if self.next >= self.n:
                self.next = 0
                if self.loop > 0:
                    self.loop -= 1
                if self.loop == 0:
                    self.closed = True
                    return ("stop",)
            k = self.next
            self.next = k + 1
            d = 10 + k if self.dur == "DYNAMIC" else self.dur
            return ("frame", k, d)
        off, wh = self.pending
        self.seek_log.append((off, wh))
        if wh == START:
            pos = off
        elif wh == CURRENT:
            pos = self.pos + off
        else:
            pos = self.n - 1 + off
        pos = max(pos, 0)
        self.pending = (0, CURRENT)
        if pos >= self.n:
            self.loop = 0
            self.closed = True
            return ("stop",)
        self.pos = pos + 1
        d = 10 + pos if self.dur == "DYNAMIC" else self.dur
        return ("frame", pos, d)

    def op_seek(self, off, wh):
        if self.closed:
            return ("err", "FinalizedIteratorError")
        if self.kind == "definite":
            f = off if wh == START else (self.next + off if wh == CURRENT else self.n + off - 1)
            if not 0 <= f < self.n:
                return ("err", "ValueError")
            self.next = f
            return ("ok",)
        if (wh == START and off < 0) or (wh == END and off > 0):
            return ("err", "ValueError")
        self.pending = (off, wh)
        return ("ok",)

    def op_dur(self, v):
        if self.closed:
            return ("err", "FinalizedIteratorError")
        if v != "DYNAMIC" and v <= 0:
            return ("err", "ValueError")
        self.dur = v
        return ("ok",)

    def op_pad(self, spec, fill):
        if self.closed:
            return ("err", "FinalizedIteratorError")
        self.set_pad(spec, fill)
        return ("ok",)

    def op_size(self, w, h):
        if self.closed:
            return ("err", "FinalizedIteratorError")
        self.size = (w, h)
        return ("ok",)

    def op_args(self, compatible, salt, extra=0):
        if self.closed:
            return ("err", "FinalizedIteratorError")
        if not compatible:
            return ("err", "IncompatibleRenderArgsError")
        self.salt = salt
        self.extra = extra  # a second argument namespace value (does not affect the output)
        return ("ok",)

    def op_close(self):
        self.closed = True
        return ("ok",)

    def settings_key(self):
        return (self.size, self.dur, self.salt, getattr(self, "extra", 0), tuple(self.pad), self.fill)
