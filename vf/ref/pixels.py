"""Reference for the pixels a render must show (text styles) or transmit (graphics styles).

Written from the documented rules (``BaseImage.draw`` *alpha* parameter, the format
specification, the render-style descriptions), never from ``_get_render_data``:

* conversion: images in a mode without transparency (``1 L RGB HSV CMYK``), or any image when
  transparency is disabled (``alpha=None``), are taken as RGB (an alpha channel is dropped);
  every other image is taken as RGBA;
* resolution: when the pixel size differs from the requested resolution the converted image
  is BOX-resampled by Pillow (trusted); when it is equal NO resampling takes place;
* transparency:
    - ``alpha=None``          -> the RGB value;
    - ``"#rrggbb"`` / ``"#"`` -> the pixel alpha-composited over that colour / over the
                                 terminal's background colour (black when undetermined),
                                 shown opaque;
    - float ``t``, text styles     -> transparent (terminal default colours) iff
                                 ``a < round(t*255)``, else the pixel composited over the
                                 terminal background (black when undetermined), opaque;
    - float ``t``, graphics styles -> the RGBA pixel as is (the threshold applies to text
                                 styles only).

The compositing arithmetic is Pillow's own ``Image.alpha_composite`` (trusted).
"""

from __future__ import annotations

OPAQUE_MODES = frozenset({"1", "L", "RGB", "HSV", "CMYK"})


def parse_hex(s: str):
    assert len(s) == 7 and s[0] == "#", s
    return (int(s[1:3], 16), int(s[3:5], 16), int(s[5:7], 16))


def nudge(c):
    """The documented kitty workaround for a cell background equal to the terminal's."""
    r, g, b = c
    return (r + 1 if r < 255 else r - 1, g, b)


def threshold(t: float) -> int:
    return round(t * 255)


def target_mode(mode: str, alpha) -> str:
    return "RGB" if alpha is None or mode in OPAQUE_MODES else "RGBA"


def prepared(img, alpha, size):
    """The source converted to RGB / RGBA and brought to *size* (a new image or *img*)."""
    from PIL import Image

    mode = target_mode(img.mode, alpha)
    im = img if img.mode == mode else img.convert(mode)
    size = tuple(size)
    if im.size != size:
        im = im.resize(size, Image.Resampling.BOX)
    return im


def over(im, colour):
    """RGBA image *im* alpha-composited over the opaque *colour*; returns an RGB image."""
    from PIL import Image

    bg = Image.new("RGBA", im.size, tuple(colour) + (255,))
    return Image.alpha_composite(bg, im).convert("RGB")


def backdrop(alpha, term_bg):
    """Colour that semi-transparent pixels are blended with (None: no blending)."""
    if alpha is None:
        return None
    if isinstance(alpha, str) and alpha != "#":
        return parse_hex(alpha)
    return tuple(term_bg) if term_bg is not None else (0, 0, 0)


def text_pixels(img, alpha, size, term_bg):
    """Rows of ``(rgb, opaque)`` for a text-style render at *size* pixels.

    ``rgb`` is the colour the pixel shows when opaque (also given for transparent pixels:
    needed to recognise colour runs); a pixel with ``opaque == False`` must show the
    terminal's own (default) colour."""
    im = prepared(img, alpha, size)
    w, h = im.size
    if im.mode == "RGB":
        rgb = list(im.getdata())
        opq = [True] * (w * h)
    else:
        rgb = list(over(im, backdrop(alpha, term_bg)).getdata())
        if isinstance(alpha, float):
            k = threshold(alpha)
            opq = [not (a < k) for a in im.getdata(3)]
        else:
            opq = [True] * (w * h)
    return [[(tuple(rgb[y * w + x]), opq[y * w + x]) for x in range(w)] for y in range(h)]


def graphics_pixels(img, alpha, size, term_bg):
    """``(mode, bytes)`` — mode "RGB" or "RGBA" — a graphics-style render must carry at
    *size* pixels."""
    im = prepared(img, alpha, size)
    if im.mode == "RGBA" and isinstance(alpha, str):
        im = over(im, backdrop(alpha, term_bg))
    return im.mode, im.tobytes()


def as_rgba(mode: str, data: bytes) -> bytes:
    """Pixel bytes normalised to RGBA (RGB pixels are fully opaque)."""
    if mode == "RGBA":
        return bytes(data)
    assert mode == "RGB", mode
    out = bytearray(len(data) // 3 * 4)
    out[0::4] = data[0::3]
    out[1::4] = data[1::3]
    out[2::4] = data[2::3]
    out[3::4] = b"\xff" * (len(data) // 3)
    return bytes(out)


def first_diff(a: bytes, b: bytes, width: int, bpp: int = 4):
    """(x, y, pixel_a, pixel_b) of the first differing pixel of two equal-length buffers."""
    n = min(len(a), len(b))
    for i in range(0, n, bpp):
        if a[i : i + bpp] != b[i : i + bpp]:
            p = i // bpp
            return (p % width, p // width, tuple(a[i : i + bpp]), tuple(b[i : i + bpp]))
    return None
