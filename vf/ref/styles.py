"""Reference model of the inheritable ("descendant") render-style settings (property C20).

Written from the documentation only (docstrings of ``BaseImage.set_render_method``,
``BaseImage.forced_support``, ``ITerm2Image.jpeg_quality`` / ``read_from_file`` /
``native_anim_max_bytes`` and the glossary term *descendant*):

* a *descendant* setting set on a class applies to that class and to all its subclasses on
  which it is unset; an instance without an own value uses that of its class;
* unsetting removes exactly the invoker's own value, so the invoker follows the next level
  again (parent style class, ..., documented default);
* documented defaults: render method ``lines`` (kitty and iterm2 styles), forced support
  disabled, JPEG quality unset = disabled (reads as ``-1``), read-from-file ``True``;
* ``forced_support`` and ``native_anim_max_bytes`` can not be set / reset via an instance;
* ``native_anim_max_bytes`` is one global value (default 2 MiB), ``del`` resets it;
* wrong argument type -> ``TypeError``, right type but invalid value -> ``ValueError``,
  and a rejected write changes nothing.

Nothing here imports or calls the library.  Nodes are small integers.
"""

from __future__ import annotations

UNSET = "<unset>"

RENDER_METHOD = "render_method"
FORCED_SUPPORT = "forced_support"
JPEG_QUALITY = "jpeg_quality"
READ_FROM_FILE = "read_from_file"
NATIVE_ANIM = "native_anim_max_bytes"

INHERITABLE = (RENDER_METHOD, FORCED_SUPPORT, JPEG_QUALITY, READ_FROM_FILE)
SETTINGS = INHERITABLE + (NATIVE_ANIM,)

DEFAULTS = {RENDER_METHOD: "lines", FORCED_SUPPORT: False, JPEG_QUALITY: -1, READ_FROM_FILE: True}
NATIVE_ANIM_DEFAULT = 2 * 2**20

# render methods implemented per style family ("" = the style implements no render methods)
METHODS = {"kitty": ("lines", "whole"), "iterm2": ("lines", "whole", "anim"), "": ()}


def norm(setting, value):
    """Observable identity of a value (render method names are case-insensitive)."""
    if setting == RENDER_METHOD and isinstance(value, str):
        return value.lower()
    return value


def _is_int(v):
    return isinstance(v, int) and not isinstance(v, bool)


class StyleModel:
    def __init__(self):
        self.parent = []  # class -> parent class / None ; instance -> its class
        self.is_inst = []
        self.family = []  # "kitty" | "iterm2" | ""
        self.own = {s: {} for s in INHERITABLE}
        self.native = NATIVE_ANIM_DEFAULT
        # bookkeeping for labelling only (never consulted for verdicts)
        self.class_unset_done = {s: set() for s in INHERITABLE}

    # ------------------------------------------------------------------ structure
    def add_class(self, parent, family=None):
        self.parent.append(parent)
        self.is_inst.append(False)
        self.family.append(self.family[parent] if family is None else family)
        return len(self.parent) - 1

    def add_instance(self, cls):
        assert not self.is_inst[cls]
        self.parent.append(cls)
        self.is_inst.append(True)
        self.family.append(self.family[cls])
        return len(self.parent) - 1

    def chain(self, node):
        """node, then every level it falls back to, nearest first."""
        while node is not None:
            yield node
            node = self.parent[node]

    def depth(self, node):
        return sum(1 for _ in self.chain(node)) - 1

    # ------------------------------------------------------------------ semantics
    def applicable(self, setting, node):
        if setting in (JPEG_QUALITY, READ_FROM_FILE, NATIVE_ANIM):
            return self.family[node] == "iterm2"
        return True

    def holder(self, setting, node):
        for n in self.chain(node):
            if n in self.own[setting]:
                return n
        return None

    def effective(self, setting, node):
        if setting == NATIVE_ANIM:
            return self.native
        h = self.holder(setting, node)
        return DEFAULTS[setting] if h is None else self.own[setting][h]

    def effective_norm(self, setting, node):
        return norm(setting, self.effective(setting, node))

    def expect(self, setting, node, value):
        """Outcome of writing *value* (``UNSET`` = unset/del) to *setting* via *node*:
        ("ok",) or ("raise", exception-name)."""
        inst = self.is_inst[node]
        if setting == RENDER_METHOD:
            if value is UNSET or value is None:
                return ("ok",)  # None is always allowed, even without render methods
            if not isinstance(value, str):
                return ("raise", "TypeError")
            if value.lower() not in METHODS[self.family[node]]:
                return ("raise", "ValueError")
            return ("ok",)
        if setting == FORCED_SUPPORT:
            if inst:
                return ("raise", "AttributeError")  # "Can not be set on an instance"
            if value is UNSET:
                return ("undefined",)  # no documented way to unset on a class
            return ("ok",) if isinstance(value, bool) else ("raise", "TypeError")
        if setting == JPEG_QUALITY:
            if value is UNSET:
                return ("ok",)
            if isinstance(value, bool):
                return ("undefined",)
            if not _is_int(value):
                return ("raise", "TypeError")
            return ("raise", "ValueError") if value > 95 else ("ok",)
        if setting == READ_FROM_FILE:
            if value is UNSET:
                return ("ok",)
            return ("ok",) if isinstance(value, bool) else ("raise", "TypeError")
        if setting == NATIVE_ANIM:
            if inst:
                return ("raise", "AttributeError")  # not settable / resettable via an instance
            if value is UNSET:
                return ("ok",)
            if isinstance(value, bool):
                return ("undefined",)
            if not _is_int(value):
                return ("raise", "TypeError")
            return ("ok",) if value > 0 else ("raise", "ValueError")
        raise KeyError(setting)

    def apply(self, setting, node, value):
        """Performs a write that `expect` judged "ok"."""
        if setting == NATIVE_ANIM:
            self.native = NATIVE_ANIM_DEFAULT if value is UNSET else value
            return
        if setting == RENDER_METHOD and value is None:
            value = UNSET
        if setting == RENDER_METHOD and not METHODS[self.family[node]]:
            return  # style without render methods: nothing to set or unset
        if value is UNSET:
            self.own[setting].pop(node, None)
            if not self.is_inst[node]:
                self.class_unset_done[setting].add(node)
        else:
            self.own[setting][node] = value

    # ------------------------------------------------------------------ coverage helpers
    def unset_under_nondefault(self, setting, node):
        """True if *node* being unset now makes it follow an ancestor holding a non-default
        value (the interesting case of the property)."""
        if setting == NATIVE_ANIM:
            return False
        p = self.parent[node]
        if p is None:
            return False
        h = self.holder(setting, p)
        return h is not None and norm(setting, self.own[setting][h]) != DEFAULTS[setting]

    def siblings_diverge(self):
        """Settings for which two classes with the same parent, or two instances of the same
        class, currently see different effective values."""
        out = set()
        for s in INHERITABLE:
            seen = {}
            for n in range(len(self.parent)):
                if not self.applicable(s, n):
                    continue
                key = (self.parent[n], self.is_inst[n])
                v = self.effective_norm(s, n)
                if key in seen and seen[key] != v:
                    out.add(s)
                    break
                seen.setdefault(key, v)
        return out

    def class_unset_in_chain(self, setting, node):
        """Labelling aid: has a class-level unset of *setting* ever been applied to *node*
        or one of its ancestors (up to and excluding the current holder)?"""
        h = self.holder(setting, node)
        for n in self.chain(node):
            if n == h:
                break
            if n in self.class_unset_done[setting]:
                return True
        return False
