"""A cooperative scheduler that owns thread schedules (C14, engine A).

Test threads are real `threading.Thread`s but only one runs at a time; every acquire/release of
an instrumented lock (and explicit `point()` calls) is a scheduling point at which the next
runnable thread is chosen from the generated schedule (a list of integers).
"""

from __future__ import annotations

import threading


class Deadlock(Exception):
    pass


class Scheduler:
    def __init__(self, choices):
        self.choices = list(choices) or [0]
        self.k = 0
        self.threads = []  # Task objects
        self.current = None
        self.trace = []
        self.main_wake = threading.Semaphore(0)
        self.error = None

    class Task:
        def __init__(self, sched, name, fn):
            self.sched, self.name, self.fn = sched, name, fn
            self.sem = threading.Semaphore(0)
            self.done = False
            self.blocked_on = None
            self.exc = None
            self.thread = threading.Thread(target=self._run, daemon=True)

        def _run(self):
            self.sem.acquire()  # wait to be scheduled for the first time
            try:
                self.fn()
            except BaseException as e:  # recorded, judged by the caller
                self.exc = e
            finally:
                self.done = True
                self.sched.main_wake.release()

    def spawn(self, name, fn):
        t = Scheduler.Task(self, name, fn)
        self.threads.append(t)
        return t

    def me(self):
        return self.current

    # -- called from test threads -------------------------------------------------------
    def point(self, what=None):
        """Scheduling point: hand control back to the scheduler and wait to be resumed."""
        t = self.current
        if t is None:
            return
        self.trace.append((t.name, what))
        self.main_wake.release()
        t.sem.acquire()

    def block(self, lock):
        t = self.current
        t.blocked_on = lock
        self.trace.append((t.name, ("blocked", lock.name)))
        self.main_wake.release()
        t.sem.acquire()
        t.blocked_on = None

    # -- main loop ------------------------------------------------------------------------
    def run(self, max_steps=20000):
        for t in self.threads:
            t.thread.start()
        steps = 0
        while True:
            live = [t for t in self.threads if not t.done]
            if not live:
                break
            runnable = [t for t in live if t.blocked_on is None or t.blocked_on.available_for(t)]
            if not runnable:
                raise Deadlock("no runnable thread: " + ", ".join(f"{t.name} waits for {t.blocked_on.name}" for t in live))
            c = self.choices[self.k % len(self.choices)]
            self.k += 1
            t = runnable[c % len(runnable)]
            self.current = t
            t.sem.release()
            self.main_wake.acquire()
            self.current = None
            steps += 1
            if steps > max_steps:
                raise Deadlock("step limit exceeded (livelock?)")
        return self.trace


class SLock:
    """Re-entrant lock with scheduling points; `kind` distinguishes the thread-level lock class
    from the multi-process one (different Python classes, for isinstance checks)."""

    _n = 0

    def __init__(self, sched: Scheduler, name=None):
        SLock._n += 1
        self.sched = sched
        self.name = name or f"L{SLock._n}"
        self.owner = None
        self.count = 0
        self.log = []

    def available_for(self, task):
        return self.owner is None or self.owner is task

    def acquire(self, blocking=True, timeout=-1):
        s = self.sched
        me = s.me()
        if me is None:  # not under the scheduler (set-up code): plain semantics
            self.count += 1
            return True
        s.point(("acquire", self.name))
        while not self.available_for(me):
            s.block(self)
        self.owner = me
        self.count += 1
        self.log.append(("acq", me.name, self.count))
        return True

    def release(self):
        s = self.sched
        me = s.me()
        if me is None:
            self.count -= 1
            return
        if self.owner is not me:
            raise RuntimeError(f"{me.name} releases {self.name} owned by {self.owner and self.owner.name}")
        self.count -= 1
        if self.count == 0:
            self.owner = None
        self.log.append(("rel", me.name, self.count))
        s.point(("release", self.name))

    __enter__ = acquire

    def __exit__(self, *a):
        self.release()


class ThreadSLock(SLock):
    pass


class ProcSLock(SLock):
    pass
