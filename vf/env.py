"""StubEnv: the deterministic configuration seam (same seam as the repository's own tests).

`install()` must run before `term_image.image` / `term_image.renderable` are imported: it
replaces the terminal-facing functions of `term_image.utils` with functions reading CFG.
"""

from __future__ import annotations

import atexit
import os
import shutil
import sys
import tempfile


class Config:
    cols = 80
    rows = 30
    cell = (9, 18)  # or None (unknown)
    name = ""  # "", "kitty", "konsole", "wezterm", "iterm2", "xterm"
    version = ""
    fg = None
    bg = None

    def set(self, **kw):
        for k, v in kw.items():
            if not hasattr(Config, k):
                raise AttributeError(k)
            setattr(self, k, tuple(v) if isinstance(v, list) else v)
        return self


CFG = Config()
_installed = False
TMP = None


def tmpdir() -> str:
    global TMP
    if TMP is None:
        TMP = tempfile.mkdtemp(prefix="vf-")
        atexit.register(shutil.rmtree, TMP, ignore_errors=True)
    return TMP


def _get_terminal_size():
    return os.terminal_size((CFG.cols, CFG.rows))


def _get_cell_size():
    if CFG.cell is None:
        return None
    from term_image.geometry import Size

    return Size(*CFG.cell)


def _get_terminal_name_version():
    return (CFG.name or None, CFG.version or None)


_get_terminal_name_version._invalidate_cache = lambda: None


def _hex(c):
    return c and "#%02x%02x%02x" % tuple(c)


def _get_fg_bg_colors(*, hex=False):
    fg = tuple(CFG.fg) if CFG.fg is not None else None
    bg = tuple(CFG.bg) if CFG.bg is not None else None
    return (_hex(fg), _hex(bg)) if hex else (fg, bg)


_get_fg_bg_colors._invalidate_cache = lambda: None


def install():
    """Idempotent.  After this, term_image.image etc. may be imported."""
    global _installed
    if _installed:
        return
    for m in ("term_image.image", "term_image.renderable", "term_image.render", "term_image.widget"):
        if m in sys.modules:
            raise RuntimeError(f"{m} imported before vf.env.install()")
    import term_image
    import term_image.utils as U

    U.get_terminal_size = _get_terminal_size
    U.get_cell_size = _get_cell_size
    term_image.get_cell_size = _get_cell_size
    U.get_terminal_name_version = _get_terminal_name_version
    U.get_fg_bg_colors = _get_fg_bg_colors

    import term_image.image as I

    I.TextImage._is_on_kitty = staticmethod(lambda: CFG.name == "kitty")
    _installed = True
    apply()


def vtuple(version: str):
    try:
        return tuple(map(int, version.split(".")))
    except ValueError:
        return None


def model_profile() -> str:
    return CFG.name if CFG.name in ("kitty", "konsole", "wezterm", "iterm2") else "other"


_DETECT = False


def apply(detect=False, **kw):
    """Sets CFG fields and makes the graphics classes' detected-terminal state consistent
    with the identity, as `is_supported()` would have left it.

    detect=True leaves the classes *undetected* instead (`_supported is None`, no terminal recorded): the
    library's own `is_supported()` then runs on first use (construction), with the kitty graphics query
    answered as the identity would (OK on kitty and konsole, silence elsewhere)."""
    global _DETECT
    CFG.set(**kw)
    import term_image.image as I
    import term_image.image.kitty as KM

    if _DETECT and not detect:
        return  # detection was left to the library for this case: only the stubbed facts change
    if detect:
        _DETECT = True
        name = CFG.name
        KM._query_support = lambda: (b"\x1b_Gi=31;OK\x1b\\\x1b[" if name in ("kitty", "konsole") else b"")
        for cls in (I.KittyImage, I.ITerm2Image):
            cls._supported = None
            cls._TERM = cls._TERM_VERSION = ""
        I.KittyImage._KITTY_VERSION = ()
        type.__setattr__(I.KittyImage, "_forced_support", True)
        type.__setattr__(I.ITerm2Image, "_forced_support", True)
        return

    K, T = I.KittyImage, I.ITerm2Image
    name, version = CFG.name, CFG.version
    vt = vtuple(version) if version else None
    k_sup = (name == "kitty" and vt is not None and vt >= (0, 20, 0)) or name == "konsole"
    K._supported = bool(k_sup)
    K._TERM = name if k_sup else ""
    K._TERM_VERSION = (version or "") if k_sup else ""
    K._KITTY_VERSION = vt if (k_sup and name == "kitty") else ()
    i_sup = name in ("iterm2", "wezterm") or (name == "konsole" and vt is not None and vt >= (22, 4, 0))
    T._supported = bool(i_sup)
    T._TERM = name if i_sup else ""
    T._TERM_VERSION = (version or "") if i_sup else ""
    # instantiation must work on every identity
    type.__setattr__(K, "_forced_support", True)
    type.__setattr__(T, "_forced_support", True)


def reset():
    """Global/class-level memo state back to a known baseline (start of every case)."""
    import term_image
    import term_image.utils as U

    term_image._cell_ratio = 0.5
    term_image.AutoCellRatio.is_supported = None
    U._queries_enabled = True
    U._swap_win_size = False
    U._query_timeout = 0.1
    import term_image.image as I

    for cls in (I.KittyImage, I.ITerm2Image):
        for attr in ("_render_method", "_jpeg_quality", "_read_from_file"):
            if attr in vars(cls) and attr != "_render_method":
                type.__delattr__(cls, attr)
        type.__setattr__(cls, "_render_method", "lines")
    type.__setattr__(type(I.ITerm2Image), "_native_anim_max_bytes", 2 * 2**20)
    CFG.set(cols=80, rows=30, cell=(9, 18), name="", version="", fg=None, bg=None)
    global _DETECT
    _DETECT = False
    apply()


IDENTITIES = [
    ("", ""),
    ("xterm", "380"),
    ("kitty", "0.19.3"),
    ("kitty", "0.20.0"),
    ("kitty", "0.25.0"),  # last version that needs per-frame deletion by z-index
    ("kitty", "0.25.1"),  # first versions past that boundary
    ("kitty", "0.25.2"),
    ("kitty", "0.26.5"),
    ("konsole", "21.12.3"),
    ("konsole", "22.04.0"),
    ("konsole", "23.08.1"),
    ("wezterm", "20230712-072601-f4abf8fd"),
    ("iterm2", "3.4.19"),
]
