"""SimTTY: a real pty as the library's active terminal + a scripted terminal responder with a
*virtual* clock.

`install()` must run before `term_image` is imported: it creates a pty pair and dup2()s the
slave onto fd 0, so that `term_image.utils` discovers it ("stdin is the terminal") and opens its
own fd on it.  After the import, `utils.select` and `utils.monotonic` are replaced by the
simulator's: every reply-timing schedule becomes an exactly reproducible generated input and
costs no wall time.  All os.read/os.write/termios/ioctl calls stay real.
"""

from __future__ import annotations

import fcntl
import os
import pty
import re
import select as _select
import struct
import sys
import termios

MASTER = SLAVE = -1
TERM = None  # the SimTerm instance
U = None  # term_image.utils


def set_winsize(cols, rows, xpix=0, ypix=0):
    fcntl.ioctl(MASTER, termios.TIOCSWINSZ, struct.pack("HHHH", rows, cols, xpix, ypix))


def install(cols=80, rows=24, xpix=0, ypix=0):
    """Creates the pty, makes it fd 0, imports term_image, installs the virtual clock."""
    global MASTER, SLAVE, TERM, U
    if TERM is not None:
        return TERM
    if "term_image" in sys.modules:
        raise RuntimeError("term_image imported before vf.simtty.install()")
    MASTER, SLAVE = pty.openpty()
    os.set_blocking(MASTER, False)
    set_winsize(cols, rows, xpix, ypix)
    os.dup2(SLAVE, 0)
    sys.__stdin__ = sys.stdin = open(0, "r", closefd=False)
    for k in ("TERM_PROGRAM", "TERM_PROGRAM_VERSION"):
        os.environ.pop(k, None)
    import term_image.utils as utils

    U = utils
    if utils._tty_fd == -1:
        raise RuntimeError("term_image did not pick up the pty as its active terminal")
    TERM = SimTerm()
    utils.select = TERM.select
    utils.monotonic = TERM.monotonic
    return TERM


class UnboundedWait(Exception):
    """The library issued a select() with no timeout while nothing can ever arrive."""


_REQ = re.compile(
    rb"\x1b\](\d+);\?(?:\x1b\\|\x07)"  # OSC Ps ; ? ST
    rb"|\x1b\[>0?q"  # XTVERSION
    rb"|\x1b\[0?c"  # DA1
    rb"|\x1b\[(1[46])t"  # XTWINOPS 14 / 16
    rb"|\x1b_G([^\x1b]*)\x1b\\"  # kitty APC
    rb"|\x1b\[\?(\d+)\$p",  # DECRQM (harness-private id probes use OSC 7777 below)
    re.S,
)
_PROBE = re.compile(rb"\x1b\]7777;(\d+)\x1b\\")


class SimTerm:
    """Scripted terminal on the master side.

    profile keys (all optional):
      fg, bg: reply spec strings like "rgb:ffff/0000/8080" or None (query unsupported)
      osc_term: "ST" | "BEL"
      xtversion: None | ("paren"|"space", name, version)
      da1: True|False (reply b"\x1b[?62;4c")
      winops14 / winops16: None | (height, width)   -- XTWINOPS reports height;width
      kitty: None (silent) | "OK" | any other message text
      delays: list of per-reply delays (seconds, virtual); 0 = same burst as the previous reply
    """

    def __init__(self):
        self.now = 0.0
        self.profile = {}
        self.pending = []  # [due, bytes]
        self._reqbuf = b""
        self._last_due = 0.0
        self._reply_no = 0
        self.requests = []  # log of recognised requests
        self.selects = 0
        self.max_wait = 0.0
        self.log = []
        self._t_reset = 0.0
        self.raise_in_select = None  # exception (instance) to raise from the next select() call: a signal while waiting

    # -- configuration ---------------------------------------------------------------
    def reset(self, profile=None, zero_clock=False):
        self.drain_master()
        if zero_clock:
            self.now = 0.0  # identical float arithmetic in every run of the same operation
        self.profile = dict(profile or {})
        self.pending = []
        self._reqbuf = b""
        self._reply_no = 0
        self._last_due = self.now
        self.requests = []
        self.selects = 0
        self.max_wait = 0.0
        self.log = []
        self._t_reset = self.now
        self.raise_in_select = None

    # -- clock --------------------------------------------------------------------------
    def monotonic(self):
        return self.now

    # -- master side -----------------------------------------------------------------
    def drain_master(self):
        data = b""
        while True:
            try:
                chunk = os.read(MASTER, 65536)
            except (BlockingIOError, OSError):
                break
            if not chunk:
                break
            data += chunk
        return data

    def _handle_requests(self):
        data = self.drain_master()
        if not data:
            return
        self._reqbuf += data
        pos = 0
        for m in _REQ.finditer(self._reqbuf):
            pos = m.end()
            self._answer(m)
        for m in _PROBE.finditer(self._reqbuf):
            pos = max(pos, m.end())
            self.requests.append(("probe", int(m.group(1))))
            self._schedule(b"\x1b]7777;" + m.group(1) + b"\x1b\\")
        # keep only a possible incomplete tail
        tail = self._reqbuf[pos:]
        i = tail.rfind(b"\x1b")
        self._reqbuf = tail[i:] if i >= 0 and len(tail) - i < 64 else b""

    def _answer(self, m):
        p = self.profile
        text = m.group(0)
        if m.group(1):
            ps = int(m.group(1))
            self.requests.append(("osc", ps))
            spec = p.get("fg") if ps == 10 else p.get("bg") if ps == 11 else None
            if spec is not None:
                term = b"\x07" if p.get("osc_term") == "BEL" else b"\x1b\\"
                self._schedule(b"\x1b]%d;" % ps + spec.encode() + term)
        elif text.endswith(b"q"):
            self.requests.append(("xtversion",))
            xv = p.get("xtversion")
            if xv:
                style, name, version = xv
                body = f"{name}({version})" if style == "paren" else f"{name} {version}"
                self._schedule(b"\x1bP>|" + body.encode() + b"\x1b\\")
        elif text.endswith(b"c"):
            self.requests.append(("da1",))
            if p.get("da1", True):
                self._schedule(b"\x1b[?62;4c")
        elif m.group(2):
            n = int(m.group(2))
            self.requests.append(("winops", n))
            val = p.get(f"winops{n}")
            if val:
                self._schedule(b"\x1b[%d;%d;%dt" % (n - 10, val[0], val[1]))
        elif m.group(3) is not None:
            self.requests.append(("kitty", m.group(3).decode(errors="replace")))
            k = p.get("kitty")
            if k is not None and b"a=q" in m.group(3):
                self._schedule(b"\x1b_Gi=31;" + k.encode() + b"\x1b\\")

    def _schedule(self, reply: bytes):
        delays = self.profile.get("delays") or [0.0]
        d = delays[self._reply_no % len(delays)]
        self._reply_no += 1
        base = max(self._last_due, self.now)
        due = base + d
        self._last_due = due
        if self.pending and d == 0 and self.pending[-1][0] == due:
            self.pending[-1][1] += reply
        else:
            self.pending.append([due, reply])

    def _deliver_due(self, upto):
        delivered = False
        while self.pending and self.pending[0][0] <= upto:
            due, data = self.pending.pop(0)
            self.now = max(self.now, due)
            os.write(MASTER, data)
            self.log.append(("burst", round(due, 6), data))
            delivered = True
        return delivered

    # -- the patched select --------------------------------------------------------------
    def select(self, r, w, x, timeout=None):
        self.selects += 1
        if self.raise_in_select is not None:
            exc, self.raise_in_select = self.raise_in_select, None
            self._handle_requests()  # the request has reached the terminal; the signal lands while waiting for the reply
            raise exc
        if self.now - self._t_reset > 120.0 or self.selects > 200000:
            # minutes of virtual time / an endless poll loop inside one library call: it never gives up
            raise UnboundedWait(f"the call keeps waiting ({self.now - self._t_reset:.1f}s of virtual time, "
                                f"{self.selects} select() calls) instead of timing out")
        fd = r[0]
        self._handle_requests()
        self._deliver_due(self.now)
        if _select.select([fd], [], [], 0)[0]:
            return [fd], [], []
        if self.pending:
            due = self.pending[0][0]
            if timeout is None or due <= self.now + timeout:
                self.max_wait = max(self.max_wait, due - self.now)
                self._deliver_due(due)
                # the kernel needs no time: data written to the master is readable on the slave
                if _select.select([fd], [], [], 0.2)[0]:
                    return [fd], [], []
                return [], [], []
        if timeout is None:
            raise UnboundedWait("select() without timeout and no reply will ever arrive")
        self.max_wait = max(self.max_wait, timeout)
        t = self.now + timeout
        if timeout > 0 and t <= self.now:  # float absorption: a real clock always moves on
            import math

            t = math.nextafter(self.now, math.inf)
        self.now = t
        return [], [], []

    # -- harness-side helpers ----------------------------------------------------------
    def idle(self, dt: float):
        """Nobody touches the terminal for `dt` seconds (virtual): replies that become due arrive."""
        self._handle_requests()
        self.now += dt
        if self._deliver_due(self.now):
            self._await_slave()

    def _await_slave(self):
        """Data written to the pty master reaches the slave's input queue through a kernel worker, i.e. a moment
        later in real time; wait until it is there (seen in non-canonical mode; attributes put back unchanged)."""
        fd = U._tty_fd
        old = termios.tcgetattr(fd)
        new = termios.tcgetattr(fd)
        new[3] &= ~termios.ICANON
        new[6][termios.VMIN] = 0
        new[6][termios.VTIME] = 0
        termios.tcsetattr(fd, termios.TCSANOW, new)
        try:
            _select.select([fd], [], [], 2.0)
        finally:
            termios.tcsetattr(fd, termios.TCSANOW, old)

    def flush_all(self):
        """Delivers every reply still scheduled (time passes as needed)."""
        self._handle_requests()
        if self.pending and self._deliver_due(self.pending[-1][0]):
            self._await_slave()

    def unread_bytes(self) -> bytes:
        """Bytes sitting unread on the slave side (read in raw mode, attributes restored)."""
        fd = U._tty_fd
        old = termios.tcgetattr(fd)
        new = termios.tcgetattr(fd)
        new[3] &= ~(termios.ICANON | termios.ECHO)
        new[6][termios.VMIN] = 0
        new[6][termios.VTIME] = 0
        termios.tcsetattr(fd, termios.TCSANOW, new)
        try:
            data = b""
            while _select.select([fd], [], [], 0)[0]:
                chunk = os.read(fd, 4096)
                if not chunk:
                    break
                data += chunk
            return data
        finally:
            termios.tcsetattr(fd, termios.TCSANOW, old)
            self.drain_master()  # echo of nothing; keep the master clean


class RealTimeDriver:
    """Drives the scripted terminal in real time (a thread polling the master): used to cross-check
    that the virtual-clock simulation and the real kernel/select path agree."""

    def __init__(self, term: SimTerm):
        import threading

        self.term = term
        self._stop = threading.Event()
        self._thread = threading.Thread(target=self._loop, daemon=True)

    def _loop(self):
        import time

        t = self.term
        while not self._stop.is_set():
            t.now = time.monotonic()
            t._handle_requests()
            t._deliver_due(t.now)
            time.sleep(0.0005)

    def __enter__(self):
        import time

        self.term.now = time.monotonic()
        self.term._last_due = self.term.now
        self._thread.start()
        return self

    def __exit__(self, *a):
        self._stop.set()
        self._thread.join(5)
