"""Core of the verification framework: clauses, recorder, violations, known findings,
replay I/O.  Nothing here imports the code under test."""

from __future__ import annotations

import hashlib
import json
import os
from collections import Counter
from dataclasses import dataclass, field
from typing import Any, Callable, Iterable

HERE = os.path.dirname(os.path.dirname(os.path.abspath(__file__)))
REPLAY_DIR = os.path.join(HERE, "replays")
EVIDENCE_DIR = os.path.join(HERE, "evidence")
KNOWN_FILE = os.path.join(HERE, "known_findings.json")

TRUSTED_BASE = [
    "CPython 3.12 and Hypothesis 6.168 (generation, shrinking)",
    "Pillow (decoding, convert, BOX resize, alpha_composite), zlib, base64",
    "Linux pty/termios implementation",
    "terminal / graphics-protocol semantics as encoded in vf/vt.py and vf/proto.py "
    "(ECMA-48, xterm ctlseqs, kitty graphics protocol, iTerm2 inline images, and the "
    "library's own stated assumptions about konsole/wezterm/kitty<=0.25.0)",
    "reference models in vf/ref written from the documentation, not from the code judged",
]


class Violation(Exception):
    """The code under test broke the property on the current case."""

    def __init__(self, msg: str, signature: dict | None = None):
        super().__init__(msg)
        self.msg = msg
        self.signature = signature or {}


class HarnessError(Exception):
    """The harness itself is broken / the run is inconclusive (exit 2)."""


def canon(obj: Any) -> str:
    return json.dumps(obj, sort_keys=True, separators=(",", ":"), default=repr)


def h64(obj: Any) -> int:
    return int.from_bytes(hashlib.blake2b(canon(obj).encode(), digest_size=8).digest(), "big")


def mix_seed(*parts: Any) -> int:
    return h64(list(parts)) & 0x7FFFFFFFFFFFFFFF


@dataclass
class Clause:
    name: str
    check: Callable[[Any, "Recorder"], None]
    strategy: Callable[[], Any] | None = None  # -> hypothesis strategy of JSON-able cases
    budget: dict = field(default_factory=lambda: {"quick": 200, "thorough": 5000})
    enumerate: Callable[[str], Iterable[Any]] | None = None  # exhaustive domain for a tier
    enum_size: Callable[[str], int] | None = None
    enum_per_shard: int = 2000
    enum_sharded: bool = False  # enumerate(tier, shard, nshards) yields only that shard's cases
    floors: dict = field(default_factory=dict)  # label -> minimum fraction of evaluations
    max_shards: int = 16
    min_per_shard: int = 25
    doc: str = ""


class Recorder:
    """Collects what a run actually covered."""

    MAX_SAMPLES = 6

    def __init__(self, known: list[dict] | None = None, prop: str = "", clause: str = ""):
        self.evaluations = 0
        self.nontrivial: set[int] = set()
        self.nontrivial_count_disjoint = 0
        self.labels: Counter = Counter()
        self.samples: list = []
        self.excluded_known = 0
        self.known_hits: Counter = Counter()
        self.extra: Counter = Counter()
        self._known = [k for k in (known or []) if k.get("status", "known") == "known"]
        self.prop = prop
        self.clause = clause
        self._cur = None

    def begin(self, case: Any) -> None:
        self.evaluations += 1
        self._cur = case

    def label(self, *labels: str) -> None:
        for lab in labels:
            self.labels[lab] += 1

    def nontriv(self, key: Any, sample: Any = None) -> None:
        """Declare the current case non-trivial; *key* is its distinctness key."""
        hk = h64(key)
        new = hk not in self.nontrivial
        self.nontrivial.add(hk)
        if new and len(self.samples) < self.MAX_SAMPLES:
            s = sample if sample is not None else self._cur
            txt = canon(s)
            if len(txt) > 1500:
                txt = txt[:1500] + "...(truncated)"
            self.samples.append({"clause": self.clause, "case": txt})

    def nontriv_disjoint(self, sample: Any = None) -> None:
        """For exhaustive enumerations: every enumerated item is distinct by construction."""
        self.nontrivial_count_disjoint += 1
        if len(self.samples) < self.MAX_SAMPLES and sample is not None:
            self.samples.append({"clause": self.clause, "case": canon(sample)[:1500]})

    def count(self, key: str, n: int = 1) -> None:
        self.extra[key] += n

    # -- known findings -------------------------------------------------------------
    def match_known(self, v: Violation) -> dict | None:
        for k in self._known:
            if k.get("property") != self.prop:
                continue
            if k.get("clause") not in (None, self.clause):
                continue
            sig = k.get("signature") or {}
            if sig and all(v.signature.get(a) == b for a, b in sig.items()):
                return k
        return None

    def result(self) -> dict:
        return {
            "evaluations": self.evaluations,
            "nontrivial": sorted(self.nontrivial),
            "nontrivial_disjoint": self.nontrivial_count_disjoint,
            "labels": dict(self.labels),
            "samples": self.samples,
            "excluded_known": self.excluded_known,
            "known_hits": dict(self.known_hits),
            "extra": dict(self.extra),
        }


def load_known() -> list[dict]:
    try:
        with open(KNOWN_FILE) as f:
            data = json.load(f)
    except FileNotFoundError:
        return []
    return data.get("findings", [])


def write_replay(prop: str, clause: str, case: Any, msg: str, signature: dict | None = None) -> str:
    os.makedirs(REPLAY_DIR, exist_ok=True)
    hid = "%016x" % h64([prop, clause, case])
    path = os.path.join(REPLAY_DIR, f"{prop}-{clause}-{hid[:12]}.json")
    with open(path, "w") as f:
        json.dump(
            {"property": prop, "clause": clause, "case": case, "message": msg,
             "signature": signature or {}},
            f, indent=1, sort_keys=True, default=repr,
        )
        f.write("\n")
    return path


def load_replay(path: str) -> dict:
    with open(path) as f:
        return json.load(f)


def committed_replays(prop: str) -> list[str]:
    """Replay files kept as regression inputs (replays/regress/<prop>-*.json)."""
    d = os.path.join(REPLAY_DIR, "regress")
    if not os.path.isdir(d):
        return []
    return sorted(
        os.path.join(d, n) for n in os.listdir(d) if n.startswith(prop + "-") and n.endswith(".json")
    )
