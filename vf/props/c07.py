"""C07 — an interrupted draw() still restores the terminal and the image (fault enumeration)."""

from __future__ import annotations

import ast
import io
import pty
import sys
import termios
import time

from hypothesis import strategies as st

from .. import gen, iterlab
from ..core import Clause, Violation
from ..faults import CallFaults, Proxy

META = {
    "level": "fault_enumeration",
    "rule": (
        "For generated draw configurations (both APIs; new: still / 2-4 frame / INDEFINITE renderables, hide_cursor, "
        "echo_input; old: Block/Kitty/ITerm2, still and animated, LINES/WHOLE, compress on/off, identities) a "
        "fault-free dry run numbers every stream write, stream flush, sleep and frame-render call; calls whose "
        "stack is inside a finally:/except: body of the library's drawing functions (determined from the AST of "
        "the current source) are the draw's own clean-up and are excluded (counted). EVERY other call is injected "
        "with KeyboardInterrupt and with RuntimeError; an interrupted write delivers a prefix of its data of "
        "length 0, 1, len/2, len-1 or len. After draw() returns or raises the captured stream is executed on the "
        "vf.vt terminal model: cursor visible, parser back in ground state with no graphics command or chunk "
        "series left open (a following text probe lands in cells), attributes reset (old API), termios attributes "
        "of the pty unchanged, render data finalized exactly once (new API), image size setting / current frame "
        "unchanged and PIL source still usable (old API); animations end silently on KeyboardInterrupt while stills "
        "re-raise it, and other exceptions propagate. Non-trivial = a fault that cuts an escape sequence or graphics "
        "payload, or lands in the second or a later frame; distinct by (config class, op kind, ordinal class, "
        "prefix class, fault kind)."
    ),
    "assumptions": [
        "crash points are call boundaries of stream writes/flushes, sleeps and frame renders (plus any prefix of an "
        "interrupted write), not arbitrary bytecode boundaries",
        "stdout is an in-memory stream whose isatty()/fileno() refer to a real pty",
    ],
}

env = I = P = H = RR = CM = None
PTY_SLAVE = -1
F = CallFaults()
import re as _re

_CSI = _re.compile(r"\x1b\[[0-9;?]*[@-~]")
CLEANUP_RANGES = {}  # filename -> list of (lo, hi) line ranges inside finally:/except: bodies


def setup():
    global env, I, P, H, RR, CM, PTY_SLAVE
    from .. import env as _env, hren

    _env.install()
    import term_image.image as _I
    import term_image.image.common as _CM
    import term_image.image.iterm2 as IM
    import term_image.image.kitty as KM
    import term_image.padding as _P
    import term_image.render  # noqa
    import term_image.render._iterator as RI
    import term_image.renderable._renderable as _RR

    env, I, P, RR, CM = _env, _I, _P, _RR, _CM
    RR.sleep = F.wrap("sleep", lambda *_: None, lambda *a: _cleanup_now())
    CM.time = Proxy(time, {"sleep": F.wrap("sleep", lambda *_: None, lambda *a: _cleanup_now())})
    KM._stdout_write = IM._stdout_write = lambda s: sys.stdout.write(s)
    H = hren.classes()
    _m, PTY_SLAVE = pty.openpty()
    for mod in (_CM, _RR, KM, IM, RI):
        _index_cleanup(mod.__file__)


def _index_cleanup(path):
    tree = ast.parse(open(path).read())
    ranges = []
    for node in ast.walk(tree):
        if isinstance(node, ast.Try):
            for body in ([node.finalbody] if node.finalbody else []) + [h.body for h in node.handlers]:
                if body:
                    ranges.append((body[0].lineno, max(getattr(n, "end_lineno", n.lineno) for n in body)))
    CLEANUP_RANGES[path] = ranges


def _cleanup_now():
    """True iff some library frame on the current stack is executing inside a finally:/except: body."""
    f = sys._getframe(1)
    while f is not None:
        rs = CLEANUP_RANGES.get(f.f_code.co_filename)
        if rs:
            ln = f.f_lineno
            for lo, hi in rs:
                if lo <= ln <= hi:
                    return True
        f = f.f_back
    return False


class FCap:
    """In-memory tty-like stdout whose write()/flush() are fault points.

    unbuffered: write() delivers at once; an interrupted write delivers a prefix of its data.
    buffered:   write() only buffers; flush() delivers, and an interrupted flush delivers a prefix of the
                buffered data and loses the rest (a stream that fails in mid-flush)."""

    def __init__(self, tty=True, buffered=False):
        self._tty = tty
        self.buffered = buffered
        self.chunks = []
        self.buf = ""
        self.encoding = "utf-8"

    def isatty(self):
        return self._tty

    def fileno(self):
        if not self._tty:
            raise io.UnsupportedOperation("fileno")
        return PTY_SLAVE

    @staticmethod
    def _letters(data):
        return any("A" <= ch <= "Z" for ch in _CSI.sub("", data))

    def write(self, data):
        f = F
        if not f.enabled:
            self.chunks.append(data)
            return len(data)
        i = len(f.events)
        f.events.append(("write", (len(data), _cleanup_now(), self._letters(data))))
        plan = f.plan
        if plan and plan[0] == i:
            if plan[3] is not None and not plan[3](f.events[-1], f.events):
                f.skipped = True
            else:
                f.fired = True
                n = max(0, min(len(data), plan[4]))
                if self.buffered:
                    if n == len(data):
                        self.buf += data
                    f.cut = None
                else:
                    self.chunks.append(data[:n])
                    f.cut = (data, n)
                raise plan[2]()
        if self.buffered:
            self.buf += data
        else:
            self.chunks.append(data)
        return len(data)

    def flush(self):
        f = F
        if not f.enabled:
            self.chunks.append(self.buf)
            self.buf = ""
            return
        i = len(f.events)
        f.events.append(("flush", (len(self.buf), _cleanup_now(), self._letters(self.buf))))
        plan = f.plan
        if plan and plan[0] == i:
            if plan[3] is not None and not plan[3](f.events[-1], f.events):
                f.skipped = True
            else:
                f.fired = True
                n = max(0, min(len(self.buf), plan[4] if len(plan) > 4 and plan[4] is not None else 0))
                self.chunks.append(self.buf[:n])
                f.cut = (self.buf, n) if self.buffered else None
                self.buf = ""
                raise plan[2]()
        self.chunks.append(self.buf)
        self.buf = ""

    def text(self):
        return "".join(self.chunks) + self.buf


# ---------------------------------------------------------------------------------------- generation

@st.composite
def cases(draw):
    c = draw(_cases())
    c["echo0"] = draw(st.sampled_from([True, True, False]))  # input echo of the terminal before the call
    return c


@st.composite
def _cases(draw):
    api = draw(st.sampled_from(["new", "old", "old"]))
    if api == "new":
        kind = draw(st.sampled_from(["still", "grid", "grid", "stream"]))
        return {
            "api": "new", "kind": kind,
            "n": 1 if kind == "still" else draw(st.integers(1, 3)) if kind == "stream" else draw(st.integers(2, 3)),
            "w": draw(st.integers(1, 4)), "h": draw(st.integers(1, 3)),
            "loops": draw(st.sampled_from([1, 2])), "cache": draw(st.sampled_from([False, True])),
            "pad": draw(iterlab.pad_spec()), "fill": draw(st.sampled_from([" ", ""])),
            "hide_cursor": draw(st.booleans()), "echo_input": draw(st.booleans()),
            "animate": draw(st.integers(0, 4)) != 0, "tty": draw(st.integers(0, 4)) != 0,
            "buffered": draw(st.booleans()),
        }
    animated = draw(st.booleans())
    style = draw(st.sampled_from(["block", "kitty", "iterm2"]))
    if animated:
        src = {"kind": draw(st.sampled_from(["anim_file", "anim_pil"])),
               "image": draw(gen.anim_image(max_frames=3, max_w=3, max_h=3, fmts=("GIF", "PNG")))}
    else:
        src = {"kind": draw(st.sampled_from(["pil", "file"])), "image": draw(gen.still_image(max_w=4, max_h=4))}
    rel = {"kitty": [["kitty", "0.20.0"], ["kitty", "0.26.5"], ["konsole", "22.04.0"], ["", ""]],
           "iterm2": [["wezterm", "20230712"], ["konsole", "22.04.0"], ["iterm2", "3.4.19"], ["", ""]],
           "block": [["kitty", "0.26.5"], ["", ""]]}[style]
    c = {
        "api": "old", "style": style, "source": src, "ident": draw(st.sampled_from(rel)),
        "size": [draw(st.integers(1, 4)), draw(st.integers(1, 3))],
        "cell": draw(st.sampled_from([[1, 2], [2, 3], [3, 4], [8, 16], [10, 20]])),
        "pad_width": draw(st.sampled_from([0, 0, 6])), "pad_height": draw(st.sampled_from([-2, 1, 5])),
        "alpha": draw(st.sampled_from([None, 0.5, "#", "#102030"])),
        "animate": draw(st.integers(0, 4)) != 0, "repeat": draw(st.sampled_from([1, 2])),
        "cached": draw(st.sampled_from([False, True])), "tty": draw(st.integers(0, 4)) != 0,
        "dynamic": draw(st.booleans()), "seek": draw(st.integers(0, 1)),
        "buffered": draw(st.booleans()),
    }
    if style == "kitty":
        c["style_args"] = {"method": draw(st.sampled_from(["lines", "whole"])), "compress": draw(st.sampled_from([0, 4]))}
    elif style == "iterm2":
        c["style_args"] = {"method": draw(st.sampled_from(["lines", "whole"])), "compress": draw(st.sampled_from([0, 4]))}
    else:
        c["style_args"] = {}
    return c


# ---------------------------------------------------------------------------------------- one run

class Run:
    """Builds the subject, performs one draw under the current fault plan, exposes observations."""

    def __init__(self, c):
        self.c = c
        env.reset()
        env.apply(cols=30, rows=12)
        self.cap = FCap(c["tty"], c.get("buffered", False))
        self.pil = None
        if c["api"] == "new":
            H["forget"]()
            kind = c["kind"]
            if kind == "still":
                self.r = H["new"]("grid", c["w"], c["h"])
            elif kind == "stream":
                self.r = H["new"]("stream", c["w"], c["h"], c["n"], 1)
            else:
                self.r = H["new"]("grid", c["w"], c["h"], c["n"], 1)
            orig = self.r._render_
            self.r._render_ = F.wrap("render", orig, lambda *a: _cleanup_now())
            self.animation = kind != "still" and c["animate"]
        else:
            from PIL import Image

            env.apply(cell=c["cell"], name=c["ident"][0], version=c["ident"][1])
            cls = {"block": I.BlockImage, "kitty": I.KittyImage, "iterm2": I.ITerm2Image}[c["style"]]
            src = c["source"]
            if src["kind"] == "pil":
                self.pil = gen.build_image(src["image"])
                self.image = cls(self.pil)
            elif src["kind"] == "file":
                self.image = cls.from_file(gen.still_file(src["image"]))
            elif src["kind"] == "anim_file":
                self.image = cls.from_file(gen.anim_file(src["image"]))
            else:
                self.pil = Image.open(gen.anim_file(src["image"]))
                self.image = cls(self.pil)
            if c["dynamic"]:
                self.image.size = I.Size.FIT
            else:
                self.image.set_size(*c["size"])
            animated_src = "n" in src["image"]
            if animated_src and c["seek"]:
                self.image.seek(1)
            self.animation = animated_src and c["animate"]
            orig = self.image._render_image
            self.image._render_image = F.wrap("render", orig, lambda *a, **k: _cleanup_now())
            self.size_before = self.image.size
            self.tell_before = self.image.tell()

    def draw(self):
        c = self.c
        real = sys.stdout
        sys.stdout = self.cap
        try:
            if c["api"] == "new":
                spec = c["pad"]
                pad = (P.AlignedPadding(spec[1], spec[2], P.HAlign(spec[3]), P.VAlign(spec[4]), c["fill"])
                       if spec[0] == "aligned" else P.ExactPadding(*spec[1:5], c["fill"]))
                self.r.draw(None, pad, animate=c["animate"], loops=c["loops"], cache=c["cache"], check_size=False,
                            allow_scroll=True, hide_cursor=c["hide_cursor"], echo_input=c["echo_input"])
            else:
                self.image.draw(None, c["pad_width"], None, c["pad_height"], c["alpha"], animate=c["animate"],
                                repeat=c["repeat"], cached=c["cached"], scroll=True, check_size=False, **c["style_args"])
        finally:
            sys.stdout = real

    def close(self):
        if self.c["api"] == "old":
            try:
                del self.image._render_image
            except AttributeError:
                pass
            self.image.close()
            if self.pil is not None:
                self.pil.close()


EXCS = {"KeyboardInterrupt": KeyboardInterrupt, "RuntimeError": lambda: RuntimeError("injected fault")}


def judge(run: Run, c, what, outcome, ename, attrs_before, ev_kind, started=True, frame_write=False):
    from ..vt import DEFAULT_SGR, Screen

    F.enabled = False
    sig = {"api": c["api"], "site": ev_kind, "exc": ename}
    # -- exception contract -------------------------------------------------------------
    if ename == "KeyboardInterrupt" and not started:
        pass  # Ctrl-C before the first frame is rendered: the animation has not begun; either outcome is accepted
    elif ename == "KeyboardInterrupt":
        if run.animation and outcome != "returned":
            raise Violation(f"{what}: an animation interrupted by Ctrl-C must end silently, but draw() -> {outcome}", {**sig, "clause": "kbint_animation"})
        if not run.animation and outcome != "KeyboardInterrupt":
            raise Violation(f"{what}: a still draw interrupted by Ctrl-C must re-raise KeyboardInterrupt, but draw() -> {outcome}", {**sig, "clause": "kbint_still"})
    elif ename == "RuntimeError" and outcome != "RuntimeError":
        raise Violation(f"{what}: the injected RuntimeError did not propagate: draw() -> {outcome}", {**sig, "clause": "propagate"})
    # -- terminal state -----------------------------------------------------------------
    text = run.cap.text()
    scr = Screen(60, 40, profile=env.model_profile(), decode_graphics=False)
    scr.strict_strings = True
    scr.feed(text, onlcr=True)
    state = scr.parser_state()
    if state.startswith(("str", "kitty")):
        # an open APC/OSC/DCS string or kitty chunk series swallows everything that follows
        raise Violation(f"{what}: the terminal is left inside an unterminated command ({state}); tail of "
                        f"the stream: {text[-80:]!r}", {**sig, "clause": "unterminated"})
    if state != "ground":
        scr.feed("\x18")  # a cut CSI/ESC consumes at most its own final byte: not what the property is about
    x, y = scr.x, scr.y
    scr.feed("PROBE")
    if scr.text_row(y)[x:x + 5].strip() != "PROBE" and "PROBE" not in "".join(scr.text_row(r) for r in range(scr.rows)):
        raise Violation(f"{what}: text written after the interrupted draw does not reach the screen", {**sig, "clause": "swallow"})
    if not scr.cursor_visible:
        raise Violation(f"{what}: the cursor is left hidden; stream: {text[:60]!r}...{text[-60:]!r}", {**sig, "clause": "cursor_hidden"})
    if c["api"] == "old" and scr.sgr != DEFAULT_SGR:
        raise Violation(f"{what}: text attributes not reset ({scr.sgr})", {**sig, "clause": "sgr"})
    if scr.sync_depth:
        raise Violation(f"{what}: synchronized update left open", {**sig, "clause": "sync"})
    if c["tty"]:
        now = termios.tcgetattr(PTY_SLAVE)
        if now != attrs_before:
            raise Violation(f"{what}: terminal attributes changed (lflag {attrs_before[3]:#x} -> {now[3]:#x})", {**sig, "clause": "termios"})
    # -- objects -------------------------------------------------------------------------
    if c["api"] == "new":
        hook = [e for e in run.r.log if e[0] == "interrupted_hook"]
        if ename == "KeyboardInterrupt" and frame_write and not hook:
            raise Violation(f"{what}: Ctrl-C while writing a frame, but the renderable's interrupted-draw hook "
                            f"(documented place to reset text attributes) was not called", {**sig, "clause": "hook"})
        if any(e[1] for e in hook):
            raise Violation(f"{what}: interrupted-draw hook called with finalized render data", {**sig, "clause": "hook"})
        for idx, (data, count) in enumerate(run.r.datas):
            if count != 1:
                raise Violation(f"{what}: render data #{idx} finalized {count} times", {**sig, "clause": "finalize"})
        if any(e[0] == "render_with_finalized_data" for e in run.r.log):
            raise Violation(f"{what}: frame rendered with finalized data", {**sig, "clause": "finalize"})
    else:
        im = run.image
        if im.size != run.size_before or (isinstance(run.size_before, I.Size) and im.size is not run.size_before):
            raise Violation(f"{what}: image size setting changed {run.size_before!r} -> {im.size!r}", {**sig, "clause": "size"})
        if im.tell() != run.tell_before:
            raise Violation(f"{what}: current frame changed {run.tell_before} -> {im.tell()}", {**sig, "clause": "tell"})
        if run.pil is not None:
            try:
                run.pil.load()
                run.pil.getpixel((0, 0))
            except Exception as e:
                raise Violation(f"{what}: the caller's PIL image is no longer usable: {type(e).__name__}: {e}", {**sig, "clause": "pil"})


def check_config(c, rec):
    orig = termios.tcgetattr(PTY_SLAVE)
    attrs0 = termios.tcgetattr(PTY_SLAVE)
    if c.get("echo0") is False:
        attrs0[3] &= ~termios.ECHO  # e.g. a full-screen application / getpass() is running
        termios.tcsetattr(PTY_SLAVE, termios.TCSANOW, attrs0)
        attrs0 = termios.tcgetattr(PTY_SLAVE)
        rec.label("echo_off_before")
    try:
        _check(c, rec, attrs0)
    finally:
        F.reset()
        termios.tcsetattr(PTY_SLAVE, termios.TCSANOW, orig)


def describe(c):
    if c["api"] == "new":
        return (("[buffered stdout] " if c.get("buffered") else "") + f"new-API draw {c['kind']} n={c['n']} {c['w']}x{c['h']} pad={c['pad']} loops={c['loops']} cache={c['cache']} "
                f"animate={c['animate']} hide_cursor={c['hide_cursor']} echo_input={c['echo_input']} tty={c['tty']}")
    return (("[buffered stdout] " if c.get("buffered") else "") + f"old-API draw {c['style']} {c['source']['kind']} size={'FIT' if c['dynamic'] else c['size']} pad=({c['pad_width']},{c['pad_height']}) "
            f"alpha={c['alpha']!r} animate={c['animate']} repeat={c['repeat']} cached={c['cached']} style={c['style_args']} "
            f"ident={c['ident']} tty={c['tty']} seek={c['seek']}")


def _check(c, rec, attrs0):
    base = describe(c)
    # -- dry run ------------------------------------------------------------------------
    F.reset(None)
    run = Run(c)
    try:
        run.draw()
    except Exception as e:
        F.enabled = False
        raise Violation(f"{base}: fault-free draw raised {type(e).__name__}: {e}", {"clause": "dryrun"})
    events = list(F.events)
    judge_clean = run
    F.enabled = False
    if c["tty"] and termios.tcgetattr(PTY_SLAVE) != attrs0:
        now = termios.tcgetattr(PTY_SLAVE)
        raise Violation(f"{base}: a draw that completed changed the terminal attributes (lflag {attrs0[3]:#x} -> {now[3]:#x}; "
                        f"input echo before the call: {'on' if attrs0[3] & termios.ECHO else 'off'})", {"clause": "termios_clean"})
    from ..vt import Screen

    scr = Screen(60, 40, profile=env.model_profile())
    scr.feed(run.cap.text(), onlcr=True)
    if not scr.in_ground() or not scr.cursor_visible:
        raise Violation(f"{base}: fault-free draw leaves parser {scr.parser_state()} / cursor visible={scr.cursor_visible}", {"clause": "dryrun"})
    run.close()
    rec.label(f"api:{c['api']}", "animation" if run.animation else "still", "tty" if c["tty"] else "notty",
              f"style:{c.get('style', c.get('kind'))}")
    excluded = injected = 0
    nframe = 0
    for i, (kind, detail) in enumerate(events):
        cleanup = detail[1] if kind in ("write", "flush") else bool(detail)
        if kind == "render":
            nframe += 1
        if cleanup:
            excluded += 1
            continue
        if kind == "write":
            n = detail[0]
            if c.get("buffered"):
                variants = [0, n]  # nothing is delivered by a buffered write: interrupted before / after buffering
            else:
                variants = sorted({0, 1, n // 2, max(0, n - 1), n} & set(range(0, n + 1)))
            plans = [("write", p) for p in variants]
        elif kind == "flush" and c.get("buffered"):
            n = detail[0]
            plans = [("flushcut", p) for p in sorted({0, 1, n // 2, max(0, n - 1), n} & set(range(0, n + 1)))]
        else:
            plans = [("before", None), ("after", None)]
        for when, prefix in plans:
            for ename, efac in EXCS.items():
                def guard(ev, evs, _kind=kind, _detail=detail):
                    return ev[0] == _kind and (ev[1][1] if _kind in ("write", "flush") else bool(ev[1])) is False and \
                        (_kind not in ("write", "flush") or ev[1][0] == _detail[0])

                if kind == "write":
                    plan = (i, "before", efac, guard, prefix)
                elif kind == "flush" and when == "flushcut":
                    plan = (i, "before", efac, guard, prefix)
                elif kind == "flush":
                    plan = (i, when, efac, guard, 0)
                    if when == "after":
                        continue  # an unbuffered flush has no effect to be 'after' of
                else:
                    plan = (i, when, efac, guard)
                F.reset(plan)
                F.cut = None
                run = Run(c)
                try:
                    run.draw()
                    outcome = "returned"
                except KeyboardInterrupt:
                    outcome = "KeyboardInterrupt"
                except Exception as e:
                    outcome = type(e).__name__
                fired = F.fired
                cut = F.cut
                F.enabled = False
                try:
                    if not fired:
                        continue
                    injected += 1
                    where = f"{ename} at call #{i} ({kind}" + (f", {prefix}/{detail[0]} chars delivered" if prefix is not None else f", {when}") + (", buffered stream" if c.get("buffered") else "") + ")"
                    judge(run, c, f"{base}: {where}", outcome, ename, attrs0, kind, started=nframe >= 1 and not (kind == "render" and nframe == 1 and when == "before"),
                          frame_write=bool(cut and any("A" <= ch <= "Z" for ch in _CSI.sub("", cut[0])))
                          or bool(kind == "flush" and not c.get("buffered") and i > 0 and events[i - 1][0] == "write" and events[i - 1][1][2]))
                    cut_inside = bool(cut and 0 < cut[1] < len(cut[0]) and ("\x1b" in cut[0]))
                    if cut_inside or nframe >= 2:
                        rec.nontriv([c["api"], c.get("style", c.get("kind")), run.animation, kind, min(nframe, 3),
                                     "cut" if cut_inside else when, ename, c["tty"]])
                finally:
                    run.close()
    rec.count("injected_runs", injected)
    rec.count("excluded_cleanup", excluded)
    rec.count("fault_points", len(events) - excluded)


CLAUSES = [
    Clause("interrupt", check_config, cases, budget={"quick": 480, "thorough": 12000}, min_per_shard=8,
           floors={"animation": 0.2, "api:new": 0.15, "api:old": 0.3}),
]
