"""C03 — graphics renders transmit exactly the image, in well-formed protocol framing."""

from __future__ import annotations

import base64
import hashlib
import io
import json
import os
import zlib

from hypothesis import strategies as st

from .. import gen, proto
from ..core import Clause, Violation
from ..ref import pixels as refpx

META = {
    "thorough_scale": 4,
    "level": "exploration",
    "rule": (
        "Hypothesis-generated KittyImage / ITerm2Image renders: source (small palette images in all nine "
        "modes, hash-noise images up to 64x64, still PIL / opened PIL / file, animated GIF/PNG/WEBP from "
        "file / opened / in-memory / format-less), cell size, size in cells, method (incl. case variants "
        "and None), compress 0-9, alpha, z-index, mix, blend, jpeg_quality, read_from_file, identity, "
        "terminal bg. Plus an enumerated boundary family: compress=0 payloads of 3072k+d bytes "
        "(k=1..4, d in {-bpp,0,+bpp}: the lengths a whole number of pixels can have) and zlib-compressed "
        "noise payloads searched to be exactly 3072k+d bytes (d=-3..3), f=24 and f=32, WHOLE and LINES. "
        "The RAW render string is tokenised by vf.proto (strict regex), framing judged per the kitty / "
        "iTerm2 protocol documents, payloads decoded and compared exactly with vf.ref.pixels. "
        "A third clause ('flatten') concentrates on sources with transparency (P with a transparent index, "
        "PA, LA, RGBA) rendered with alpha None / '#' / '#rrggbb'. "
        "Non-trivial = a transmission of >= 2 chunks, or a base64 length within 8 characters of a multiple "
        "of 4096, or LINES with H >= 2; distinct by (style, method, f, chunks, d, compressed, source kind, "
        "alpha kind)."
    ),
    "assumptions": [
        "kitty graphics protocol chunking rules as written in vf/proto.py",
        "PNG is lossless: Pillow's PNG/GIF/WEBP(lossless) decoders return the encoded pixels",
        "JPEG payloads (jpeg_quality >= 0, opaque result) are judged on format and pixel size only",
        "a native animation re-encoded from an in-memory WebP source is judged on frame count and frame "
        "size only (Pillow re-encodes WebP lossily by default); GIF/APNG re-encodings are compared exactly",
        "still source files carry a PNG tEXt marker chunk, so a payload byte-identical to the file is "
        "taken to be the file itself",
        "the unknown cell size case (get_cell_size() is None) is outside the domain",
        "read-from-file 'applies' (payload must be the untouched file) when read_from_file is effectively "
        "True, method WHOLE, still image with a readable file, no source dimension exceeds the render "
        "resolution, and either the file's mode has no transparency (1, L, RGB) or alpha is a float and "
        "the mode is LA/RGBA",
    ],
}

I = None
env = None
RenderError = None


def setup():
    global I, env, RenderError
    from .. import env as _env

    _env.install()
    import term_image.image as _I
    from term_image.exceptions import RenderError as _RE

    I, env, RenderError = _I, _env, _RE
    import warnings

    warnings.filterwarnings("ignore", message="Image data size above the maximum")


# ------------------------------------------------------------------------ sources

def stream(seed, n: int) -> bytes:
    out = bytearray()
    i = 0
    while len(out) < n:
        out += hashlib.blake2b(f"{seed}:{i}".encode(), digest_size=64).digest()
        i += 1
    return bytes(out[:n])


def raw_noise(spec) -> bytes:
    """Pixel bytes of a noise spec in its own mode (RGB/RGBA): `noise_n` noisy bytes, then zeros."""
    bpp = {"RGB": 3, "RGBA": 4}[spec["mode"]] if spec["mode"] in ("RGB", "RGBA") else 4
    total = spec["w"] * spec["h"] * bpp
    n = min(total, spec.get("noise_n", total))
    return stream(spec["noise"], n) + bytes(total - n)


def build_still(spec):
    from PIL import Image

    if "noise" not in spec:
        return gen.build_image(spec)
    mode = spec["mode"]
    size = (spec["w"], spec["h"])
    if mode in ("RGB", "RGBA"):
        return Image.frombytes(mode, size, raw_noise(spec))
    base = Image.frombytes("RGBA", size, raw_noise(spec))
    if mode == "1":
        return base.convert("RGB").convert("1", dither=Image.Dither.NONE)
    if mode == "P":
        img = base.convert("RGB").convert("P", palette=Image.Palette.ADAPTIVE, colors=8)
        if "transparency" in spec:
            img.info["transparency"] = spec["transparency"]
        return img
    if mode == "PA":
        pa = base.convert("RGB").convert("P", palette=Image.Palette.ADAPTIVE, colors=8).convert("PA")
        pa.putalpha(base.getchannel("A"))
        return pa
    if mode == "LA":
        return base.convert("LA")
    return base.convert("RGB").convert(mode)


def still_file(spec) -> str:
    """PNG file of a still spec.  It carries a tEXt chunk that no re-encoding reproduces, so a payload
    that is byte-identical to the file can only be the file itself."""
    from PIL.PngImagePlugin import PngInfo

    key = hashlib.sha1(json.dumps(spec, sort_keys=True).encode()).hexdigest()[:16]
    path = os.path.join(env.tmpdir(), f"c03-{key}.png")
    if not os.path.exists(path):
        img = build_still(spec)
        if img.mode in ("HSV", "PA", "CMYK"):
            img = img.convert("RGBA" if img.mode == "PA" else "RGB")
        meta = PngInfo()
        meta.add_text("vf-source", key)
        img.save(path + ".tmp", "PNG", pnginfo=meta)
        os.replace(path + ".tmp", path)
    return path


def read(path) -> bytes:
    with open(path, "rb") as f:
        return f.read()


class Source:
    """The image object under test plus independent access to the same source for the oracle."""

    def __init__(self, case, cls):
        from PIL import Image

        src = case["src"]
        kind = src["kind"]
        self.kind = kind
        self.animated = kind.startswith("anim")
        self.frame = src.get("frame", 0)
        self.pil = None
        self.path = None
        self.bytes = None  # bytes of the backing file (None: purely in-memory source)
        self.mem = None  # bytes an in-memory animated source was opened from
        if kind == "pil":
            self.pil = build_still(src["image"])
            self._fresh = lambda: build_still(src["image"])
        elif kind in ("pil_opened", "file"):
            self.path = still_file(src["image"])
            self._fresh = lambda: Image.open(self.path)
            if kind == "pil_opened":
                self.pil = Image.open(self.path)
        else:
            self.path = gen.anim_file(src["image"])
            if kind == "anim_opened":
                self.pil = Image.open(self.path)
                self._fresh = lambda: Image.open(self.path)
            elif kind in ("anim_mem", "anim_noformat"):
                self.mem = read(self.path)
                self.pil = Image.open(io.BytesIO(self.mem))
                if kind == "anim_noformat":
                    self.pil.format = None
                self._fresh = lambda: Image.open(io.BytesIO(self.mem))
                self.path = None
            else:
                self._fresh = lambda: Image.open(self.path)
        if self.path is not None:
            self.bytes = read(self.path)
        self.image = cls(self.pil) if self.pil is not None else cls.from_file(self.path)
        if self.animated:
            self.image.seek(self.frame)

    def fresh(self):
        """A new PIL image of the source, positioned at the rendered frame."""
        im = self._fresh()
        if self.animated:
            im.seek(self.frame)
        return im

    def close(self):
        self.image.close()
        if self.pil is not None:
            self.pil.close()


# ------------------------------------------------------------------------ generation

IDENTS_KITTY = [["", ""], ["kitty", "0.20.0"], ["kitty", "0.25.0"], ["kitty", "0.26.5"], ["konsole", "22.04.0"],
                ["wezterm", "20230712-072601-f4abf8fd"]]
IDENTS_ITERM2 = [["iterm2", "3.4.19"], ["konsole", "22.04.0"], ["konsole", "23.08.1"],
                 ["wezterm", "20230712-072601-f4abf8fd"], ["", ""], ["xterm", "380"], ["kitty", "0.26.5"]]
# (Hypothesis over-represents index 0 of small integer ranges: the most valuable class comes first.)
METHODS_K = ["whole", "lines", None, "whole", "LINES", "Whole"]
METHODS_I = ["whole", "lines", None, "whole", "anim", "anim", "LINES", "WHOLE", "Anim"]
NOISE_MODES = ["RGBA", "RGB", "P", "LA", "PA", "L", "P", "1", "CMYK", "HSV", "RGBA"]
KINDS = ["file", "pil", "pil_opened", "file", "pil", "file", "pil_opened",
         "anim_file", "anim_opened", "anim_mem", "anim_noformat"]


ALPHA_MODES_W = ["P", "RGBA", "PA", "LA", "P"]


@st.composite
def still_specs(draw, big, alpha_modes=False):
    if alpha_modes:
        # sources that do carry transparency (P always with a transparent palette index)
        mode = ALPHA_MODES_W[draw(st.integers(0, len(ALPHA_MODES_W) - 1))]
        if draw(st.booleans()):
            spec = draw(gen.still_image(max_w=8, max_h=8, modes=[mode]))
            if mode == "P":
                spec["transparency"] = draw(st.integers(0, 3))
            return spec
        spec = {"mode": mode, "w": draw(st.integers(1, 24)), "h": draw(st.integers(1, 24)),
                "noise": draw(st.integers(0, 10**6))}
        if mode == "P":
            spec["transparency"] = draw(st.integers(0, 7))
        return spec
    if big or draw(st.integers(0, 2)) == 0:
        mode = NOISE_MODES[draw(st.integers(0, len(NOISE_MODES) - 1))]
        lo, hi = (32, 64) if big else (1, 48)
        spec = {"mode": mode, "w": draw(st.integers(lo, hi)), "h": draw(st.integers(lo, hi)),
                "noise": draw(st.integers(0, 10**6))}
        if mode == "P" and draw(st.integers(0, 2)) < 2:
            spec["transparency"] = draw(st.integers(0, 7))
        return spec
    return draw(gen.still_image(max_w=12, max_h=12))


@st.composite
def alpha_strategy(draw):
    sel = draw(st.integers(0, 19))
    if sel < 5:
        return draw(st.sampled_from([40 / 255, 0.0, 0.5, 1 / 255, 254 / 255, 0.999]))
    if sel < 10:
        return draw(st.one_of(st.integers(0, 254).map(lambda k: k / 255), st.floats(0.0, 0.999, allow_nan=False)))
    if sel < 13:
        return None
    if sel < 15:
        return "#"
    return "#%02x%02x%02x" % tuple(draw(gen.rgb))


@st.composite
def cases(draw, flatten=False):
    """flatten=True: the regime where transparency must be removed from a source that has some
    (alpha None / '#' / '#rrggbb' on P-with-transparency, PA, LA, RGBA still sources)."""
    style = ["kitty", "iterm2"][draw(st.integers(0, 1))]
    big = not flatten and draw(st.integers(0, 1 if style == "kitty" else 3)) == 0  # large payloads: kitty chunking
    kind = KINDS[draw(st.integers(0, (6 if flatten else len(KINDS) - 1)))]
    if not kind.startswith("anim"):
        src = {"kind": kind, "image": draw(still_specs(big, alpha_modes=flatten))}
    else:
        img = draw(gen.anim_image())
        src = {"kind": kind, "image": img, "frame": draw(st.integers(0, img["n"] - 1))}
    if big:
        cell = [draw(st.integers(8, 12)), draw(st.integers(18, 32))]
        W, H = draw(st.integers(6, 10)), draw(st.integers(1, 3))
    else:
        cell = [draw(st.one_of(st.integers(1, 4), st.integers(1, 10))),
                draw(st.one_of(st.integers(1, 6), st.integers(1, 20)))]
        W, H = draw(st.integers(1, 8)), draw(st.one_of(st.integers(1, 2), st.integers(1, 5)))
    case = {
        "style": style, "src": src, "cell": cell, "W": W, "H": H,
        "bg": draw(st.one_of(st.none(), gen.rgb)),
        "alpha": draw(alpha_strategy()),
        # an earlier render of the same objects: at another frame / with another transparency setting, run to
        # completion (abort None) or interrupted at a generated point
        "prior": draw(st.one_of(st.none(), st.fixed_dictionaries({
            "frame": st.integers(0, 7), "alpha": st.sampled_from(["same", "same", None, 0.5, "#", "#0a141e"]),
            "abort": st.one_of(st.none(), st.floats(0.0, 0.999, allow_nan=False))}))),
    }
    if flatten:
        sel = draw(st.integers(0, 5))
        case["alpha"] = None if sel < 3 else ("#" if sel == 3 else "#%02x%02x%02x" % tuple(draw(gen.rgb)))
    args = {}
    if style == "kitty":
        case["ident"] = draw(st.sampled_from(IDENTS_KITTY))
        m = METHODS_K[draw(st.integers(0, len(METHODS_K) - 1))]
        if draw(st.integers(0, 3)):
            args["z_index"] = draw(st.one_of(st.sampled_from([0, 1, -1, 2**31 - 1, -(2**31 - 1)]),
                                             st.integers(-1000, 1000)))
        if draw(st.booleans()):
            args["blend"] = draw(st.booleans())
    else:
        case["ident"] = draw(st.sampled_from(IDENTS_ITERM2))
        m = METHODS_I[draw(st.integers(0, len(METHODS_I) - 1))]
        if kind.startswith("anim") and draw(st.booleans()):
            m = "anim"  # native animation
        case["jpeg"] = draw(st.sampled_from(["unset", "unset", -1, 0, 50, 95]))
        case["rff"] = draw(st.sampled_from(["unset", "unset", True, False]))
    if m is not None or draw(st.booleans()):
        args["method"] = m
    if draw(st.booleans()):
        args["mix"] = draw(st.booleans())
    c = draw(st.integers(0, 15))
    if c < (9 if big else 5):
        args["compress"] = 0
    elif c < 15:
        args["compress"] = c - 5 if c - 5 > 0 else 9
    case["args"] = args
    return case


# -- boundary family (enumerated) ---------------------------------------------------------------

def _factor(n: int):
    best = 1
    for s in range(1, 129):
        if n % s == 0:
            best = s
    return best, n // best


def _find_noise_n(seed, total: int, target: int, level: int):
    """Number n of leading noise bytes (rest zero) of a `total`-byte buffer whose zlib stream is
    exactly `target` bytes long, or None."""
    noise = stream(seed, total)

    def clen(n):
        return len(zlib.compress(noise[:n] + bytes(total - n), level))

    lo, hi = 0, total
    if clen(hi) < target:
        return None
    while lo < hi:  # smallest n with clen(n) >= target (clen is monotone up to small wiggles)
        mid = (lo + hi) // 2
        if clen(mid) >= target:
            hi = mid
        else:
            lo = mid + 1
    for n in range(max(0, lo - 12), min(total, lo + 40) + 1):
        if clen(n) == target:
            return n
    return None


def boundary_cases(tier="quick"):
    for method in ("whole", "lines"):
        H = 1 if method == "whole" else 2
        for fmt in (24, 32):
            bpp = fmt // 8
            mode, alpha = ("RGB", None) if fmt == 24 else ("RGBA", 0.5)
            for k in (1, 2, 3, 4):
                for d in (-bpp, 0, bpp):
                    npx = (3072 * k + d) // bpp
                    s, v = _factor(npx)
                    yield {
                        "style": "kitty", "boundary": {"k": k, "d": d, "compressed": False},
                        "src": {"kind": "pil", "image": {"mode": mode, "w": s, "h": v * H, "noise": 7 * k + d}},
                        "cell": [s, v], "W": 1, "H": H, "bg": None, "alpha": alpha, "ident": ["kitty", "0.26.5"],
                        "args": {"method": method, "compress": 0},
                    }
                for d in range(-3, 4):
                    target = 3072 * k + d
                    s = 64
                    v = -(-(target + 160) // (s * bpp))
                    level = (1, 6, 9, 4)[k - 1]
                    for seed in range(100 * k + d + 3, 100 * k + d + 3 + 6000, 1000):
                        n = _find_noise_n(seed, s * v * bpp, target, level)
                        if n is not None:
                            break
                    else:
                        continue
                    yield {
                        "style": "kitty", "boundary": {"k": k, "d": d, "compressed": True},
                        "src": {"kind": "pil", "image": {"mode": mode, "w": s, "h": v * H, "noise": seed, "noise_n": n}},
                        "cell": [s, v], "W": 1, "H": H, "bg": None, "alpha": alpha, "ident": ["kitty", "0.26.5"],
                        "args": {"method": method, "compress": level},
                    }


def boundary_size(tier="quick"):
    return 2 * 2 * 4 * (3 + 7)


# ------------------------------------------------------------------------ the check

def vio(msg, **sig):
    return Violation(msg, sig)


def check_graphics(case, rec):
    env.reset()
    style = case["style"]
    W, H = case["W"], case["H"]
    cw, ch = case["cell"]
    name, version = case["ident"]
    env.apply(cols=W + 2, rows=H + 2, cell=[cw, ch], name=name, version=version, bg=case["bg"])
    cls = I.KittyImage if style == "kitty" else I.ITerm2Image
    try:
        src = Source(case, cls)
    except Exception as e:
        raise vio(f"constructing the image raised {type(e).__name__}: {e}", clause="construct")
    try:
        _check(case, rec, src)
    except Violation as v:
        if getattr(src, "note", ""):
            raise Violation(v.msg + src.note, v.signature) from None
        raise
    finally:
        src.close()


def _check(case, rec, src):
    style = case["style"]
    W, H = case["W"], case["H"]
    cw, ch = case["cell"]
    alpha, bg = case["alpha"], case["bg"]
    image = src.image
    args = dict(case["args"])
    if args.get("method", 0) is None:
        args.pop("method")
    method = (args.get("method") or "lines").lower()
    if style == "iterm2":
        if case.get("jpeg", "unset") != "unset":
            image.jpeg_quality = case["jpeg"]
        if case.get("rff", "unset") != "unset":
            image.read_from_file = case["rff"]
    image.set_size(W, H)
    native_anim = style == "iterm2" and method == "anim" and src.animated
    prior = case.get("prior")
    after = ""
    if prior and W * H <= 36 and not native_anim:
        from ..faults import interrupt_at

        p_alpha = alpha if prior["alpha"] == "same" else prior["alpha"]
        files = ("image/kitty.py", "image/iterm2.py", "image/common.py")
        if src.animated:
            pf = prior["frame"] % src.image.n_frames
            image.seek(pf)
        try:
            if prior["abort"] is None:
                image._renderer(image._render_image, p_alpha, **args)
                after = f" [after a render with alpha={p_alpha!r}" + (f" at frame {pf}]" if src.animated else "]")
                rec.label("after_prior_render")
            else:
                twin = Source(case, type(image))
                try:
                    if src.animated:
                        twin.image.seek(pf)
                    twin.image.set_size(W, H)
                    lf = interrupt_at(files, prior["abort"], lambda: image._renderer(image._render_image, p_alpha, **args),
                                      dry_fn=lambda: twin.image._renderer(twin.image._render_image, p_alpha, **args), max_lines=20000)
                finally:
                    twin.close()
                if lf is not None and lf.fired:
                    after = f" [after a render with alpha={p_alpha!r}" + (f" at frame {pf}" if src.animated else "") + f" was interrupted at {lf.where}]"
                    rec.label("abort_then_reuse")
        except Exception as e:
            if gen.is_pil_apng_defect(e):  # Pillow's own APNG decoder fails on some backward seeks: excluded, counted
                rec.label("excluded:pil_apng_seek_defect")
                rec.count("excluded_pil_apng_seek_defect", 1)
                return
            raise vio(f"render raised {type(e).__name__}: {e}", clause="render_exception", style=style)
        if src.animated:
            image.seek(src.frame)
        if tuple(image.size) != (W, H):
            raise vio(f"a render changed the image size {(W, H)} -> {image.size}{after}", clause="abort_then_reuse", style=style)
    src.note = after
    try:
        out = image._renderer(image._render_image, alpha, **args)
    except RenderError as e:
        if native_anim and src.kind == "anim_noformat":
            rec.label("style:iterm2", "method:anim", f"src:{src.kind}", "render_error_unknown_format")
            return
        raise vio(f"render raised RenderError: {e}", clause="render_exception", style=style)
    except Exception as e:
        if after and gen.is_pil_apng_defect(e):
            rec.label("excluded:pil_apng_seek_defect")
            rec.count("excluded_pil_apng_seek_defect", 1)
            return
        raise vio(f"render raised {type(e).__name__}: {e}", clause="render_exception", style=style)

    # the public path: the same settings written as a format specifier must give the very same render
    aspec = gen.alpha_spec(alpha)
    keys = set(args)
    if aspec is not None and keys <= {"method", "z_index", "mix", "compress"} and not native_anim:
        ss = {"lines": "L", "whole": "W", "anim": "A"}[(args["method"]).lower()] if args.get("method") else ""
        if "z_index" in args and style == "kitty":
            ss += f"z{args['z_index']}"
        if "mix" in args:
            ss += f"m{int(args['mix'])}"
        if "compress" in args:
            ss += f"c{args['compress']}"
        spec = "1.1" + aspec + ("+" + ss if ss else "")
        if not ("z_index" in args and style != "kitty"):
            try:
                pub = format(image, spec)
            except Exception as e:
                raise vio(f"format(image, {spec!r}) raised {type(e).__name__}: {e}", clause="format_path", style=style)
            if pub != out:
                raise vio(f"format(image, {spec!r}) differs from the render with alpha={alpha!r} and {args}", clause="format_path", style=style)
            rec.label("format_path")

    try:
        toks = proto.tokens(out)
        if style == "kitty":
            info = _kitty(case, rec, src, toks, method, args)
        else:
            info = _iterm2(case, rec, src, toks, method, args, native_anim)
    except proto.ProtoError as e:
        raise vio(f"{style} framing: {e.msg}", clause="framing", kind=e.kind, style=style, method=method)

    rec.label(f"style:{style}", f"method:{method}", f"src:{src.kind}", *info["labels"])
    if not src.animated:
        m0 = src.fresh().mode
        rec.label(f"srcmode:{m0}" + ("+transparency" if m0 == "P" and "transparency" in src.fresh().info else ""))
    rec.label("alpha:" + ("none" if alpha is None else ("thr" if isinstance(alpha, float) else "bg")))
    if info["nontriv"] is not None:
        ak = "none" if alpha is None else ("thr" if isinstance(alpha, float) else "bg")
        rec.nontriv([style, method] + info["nontriv"] + [src.kind, ak])


def _int(keys, k, what):
    try:
        return int(keys[k])
    except KeyError:
        raise proto.ProtoError(f"{what}: key {k!r} missing (keys {sorted(keys)})", "control")
    except ValueError:
        raise proto.ProtoError(f"{what}: key {k}={keys[k]!r} is not an integer", "control")


def _compare(got_rgba: bytes, src, alpha, size, bg, what, note="", **sig):
    mode, data = refpx.graphics_pixels(src.fresh(), alpha, size, bg)
    want = refpx.as_rgba(mode, data)
    if len(got_rgba) != len(want):
        raise vio(f"{what}: {len(got_rgba)} bytes of RGBA pixels, expected {len(want)} for {size}", clause="pixels", **sig)
    if got_rgba != want:
        x, y, g, w_ = refpx.first_diff(got_rgba, want, size[0])
        raise vio(f"{what}: pixel {(x, y)} of the {size[0]}x{size[1]} transmitted image is {g}, expected {w_} "
                  f"(alpha {alpha!r}, terminal bg {bg}, source {src.kind} {src.fresh().mode} "
                  f"{src.fresh().size}){note}", clause="pixels", **sig)
    return mode


def _lower_bound(s, v, src, W, H, cw, ch, what, **sig):
    sw, sh = src.fresh().size
    if s < min(sw, W * cw) or v < min(sh, H * ch):
        raise vio(f"{what}: transmitted resolution {s}x{v} drops information: source {sw}x{sh}, "
                  f"display {W * cw}x{H * ch}", clause="resolution", **sig)


# -- kitty ---------------------------------------------------------------------------------------

KITTY_KEYS = set("atfsvzoCcrq")


def _kitty(case, rec, src, toks, method, args):
    W, H = case["W"], case["H"]
    cw, ch = case["cell"]
    alpha, bg = case["alpha"], case["bg"]
    sig = {"style": "kitty", "method": method}
    if any(t["t"] == "iterm2" for t in toks):
        raise vio("kitty render contains an iTerm2 command", clause="framing", **sig)
    items = proto.kitty_items(toks)
    blend = args.get("blend", True)
    ntrans = H if method == "lines" else 1
    kinds = [i["kind"] for i in items]
    want_kinds = (["transmission"] if blend else ["delete", "transmission"]) * ntrans
    if kinds != want_kinds:
        raise vio(f"command sequence {kinds} != expected {want_kinds} (method {method}, H={H}, blend={blend})",
                  clause="sequence", **sig)
    z_want = args.get("z_index", 0)
    compress = args.get("compress", 4)
    strips = []
    labels, nontriv = [], None
    line_no = 0
    for it in items:
        if it["kind"] == "delete":
            if it["keys"] != {"a": "d", "d": "C"}:
                raise vio(f"blend=False delete command has keys {it['keys']}, expected a=d,d=C", clause="delete", **sig)
            continue
        keys = it["keys"]
        what = f"transmission {line_no}"
        if not set(keys) <= KITTY_KEYS:
            raise vio(f"{what}: control keys {sorted(set(keys) - KITTY_KEYS)} change the placement in ways the "
                      f"render does not account for", clause="keys", **sig)
        proto.check_chunking(it)
        if it["m"][0] is None and len(it["chunks"]) == 1:
            pass  # m absent == m=0
        if keys.get("a") != "T":
            raise vio(f"{what}: action a={keys.get('a')!r}, expected T (transmit and display)", clause="keys", key="a", **sig)
        if keys.get("t", "d") != "d":
            raise vio(f"{what}: transmission medium t={keys.get('t')!r}, expected d", clause="keys", key="t", **sig)
        f = _int({"f": keys.get("f", "32")}, "f", what)
        if f not in (24, 32):
            raise vio(f"{what}: format f={f}", clause="keys", key="f", **sig)
        s, v = _int(keys, "s", what), _int(keys, "v", what)
        if keys.get("C") != "1":
            raise vio(f"{what}: C={keys.get('C')!r}: the cursor moves after the placement (expected C=1)",
                      clause="keys", key="C", **sig)
        c, r = _int(keys, "c", what), _int(keys, "r", what)
        z = _int({"z": keys.get("z", "0")}, "z", what)
        if z != z_want:
            raise vio(f"{what}: z={z}, requested z_index={z_want}", clause="keys", key="z", **sig)
        if ("o" in keys) != (compress > 0):
            raise vio(f"{what}: o={keys.get('o')!r} with compress={compress}", clause="keys", key="o", **sig)
        if c != W or r != (1 if method == "lines" else H):
            raise vio(f"{what}: cell footprint c={c},r={r}, expected {W}x{1 if method == 'lines' else H}",
                      clause="keys", key="cr", **sig)
        data = proto.kitty_payload(it)
        if len(data) != s * v * f // 8:
            raise vio(f"{what}: payload is {len(data)} bytes, s*v*f/8 = {s}*{v}*{f // 8} = {s * v * f // 8}",
                      clause="payload_size", **sig)
        if s <= 0 or v <= 0:
            raise vio(f"{what}: empty image {s}x{v}", clause="payload_size", **sig)
        rgba = refpx.as_rgba("RGB" if f == 24 else "RGBA", data)
        if method == "lines":
            if s != W * cw or v != ch:
                raise vio(f"{what}: LINES strip is {s}x{v}, expected {W * cw}x{ch} (W={W}, cell {cw}x{ch})",
                          clause="strip_size", **sig)
            strips.append(rgba)
        else:
            _lower_bound(s, v, src, W, H, cw, ch, what, **sig)
            _compare(rgba, src, alpha, (s, v), bg, what, **sig)
        # coverage bookkeeping
        nch = len(it["chunks"])
        blen = sum(map(len, it["chunks"]))
        near = None
        if blen >= proto.CHUNK - 8:
            kk = round(blen / proto.CHUNK)
            if kk >= 1 and abs(blen - kk * proto.CHUNK) <= 8:
                near = blen - kk * proto.CHUNK
        labels += [f"f:{f}", "chunks:1" if nch == 1 else ("chunks:2" if nch == 2 else "chunks:3+")]
        if near is not None:
            labels.append("near_boundary")
        if nch >= 2 or near is not None or (method == "lines" and H >= 2):
            key = [f, nch, near, compress > 0]
            if nontriv is None or nch > nontriv[1] or (near is not None and nontriv[2] is None):
                nontriv = key
        if line_no == 0:
            first_len = len(base64.b64decode("".join(it["chunks"])))  # bytes actually transmitted
        line_no += 1
    if method == "lines":
        _compare(b"".join(strips), src, alpha, (W * cw, H * ch), bg, f"LINES strips stitched ({H} x {ch} rows)", **sig)
    if "boundary" in case:  # (after all judgements: a wrong render may also miss the target length)
        b = case["boundary"]
        if first_len != 3072 * b["k"] + b["d"]:
            raise RuntimeError(f"boundary case did not hit its target: {first_len} != 3072*{b['k']}+{b['d']}")
        labels.append(f"boundary:{'z' if b['compressed'] else 'raw'}:d={b['d']}")
    labels = sorted(set(labels)) + (["blend_off"] if not blend else [])
    return {"labels": labels, "nontriv": nontriv}


# -- iTerm2 ---------------------------------------------------------------------------------------

ITERM2_KEYS = {"size", "width", "height", "preserveAspectRatio", "inline", "doNotMoveCursor", "name"}


def _decode(data: bytes, what, **sig):
    from PIL import Image

    try:
        im = Image.open(io.BytesIO(data))
        im.load()
    except Exception as e:
        raise vio(f"{what}: payload does not decode as an image: {type(e).__name__}: {e}", clause="payload", **sig)
    return im


def _iterm2(case, rec, src, toks, method, args, native_anim):
    W, H = case["W"], case["H"]
    cw, ch = case["cell"]
    alpha, bg = case["alpha"], case["bg"]
    sig = {"style": "iterm2", "method": method}
    if any(t["t"] == "kitty" for t in toks):
        raise vio("iTerm2 render contains a kitty graphics command", clause="framing", **sig)
    imgs = [proto.iterm2_image(t) for t in toks if t["t"] == "iterm2"]
    lines = method == "lines"
    if len(imgs) != (H if lines else 1):
        raise vio(f"{len(imgs)} inline images, expected {H if lines else 1} (method {method}, H={H})",
                  clause="sequence", **sig)
    konsole = case["ident"][0] == "konsole"
    jq = case.get("jpeg", "unset")
    jq = -1 if jq == "unset" else jq
    rff = case.get("rff", "unset")
    rff = True if rff == "unset" else rff
    labels = []
    strips = []
    strip_mode = None
    for n, im in enumerate(imgs):
        keys, data = im["keys"], im["data"]
        what = f"inline image {n}"
        if not set(keys) <= ITERM2_KEYS:
            raise vio(f"{what}: unexpected arguments {sorted(set(keys) - ITERM2_KEYS)}", clause="keys", **sig)
        if _int(keys, "size", what) != len(data):
            raise vio(f"{what}: size={keys['size']} but the decoded payload has {len(data)} bytes",
                      clause="keys", key="size", **sig)
        if _int(keys, "width", what) != W or _int(keys, "height", what) != (1 if lines else H):
            raise vio(f"{what}: width={keys['width']},height={keys['height']}, expected "
                      f"{W},{1 if lines else H}", clause="keys", key="wh", **sig)
        if keys.get("preserveAspectRatio") != "0" or keys.get("inline") != "1":
            raise vio(f"{what}: preserveAspectRatio={keys.get('preserveAspectRatio')!r}, inline={keys.get('inline')!r}",
                      clause="keys", key="par_inline", **sig)
        if (keys.get("doNotMoveCursor") == "1") != konsole or keys.get("doNotMoveCursor", "1") != "1":
            raise vio(f"{what}: doNotMoveCursor={keys.get('doNotMoveCursor')!r} on identity {case['ident']}",
                      clause="keys", key="dnmc", **sig)

        if native_anim:
            _native_anim(case, src, data, what, labels, **sig)
            continue

        has_file = src.bytes is not None
        file_ok = False
        file_required = False
        if has_file and not lines and not src.animated and rff:
            fimg = src.fresh()
            fmode, fdata = refpx.graphics_pixels(fimg, alpha, fimg.size, bg)
            file_ok = refpx.as_rgba(fmode, fdata) == fimg.convert("RGBA").tobytes()
            fits = fimg.size[0] <= W * cw and fimg.size[1] <= H * ch
            plain = fimg.mode in ("1", "L", "RGB") or (isinstance(alpha, float) and fimg.mode in ("LA", "RGBA"))
            # (ANIM on a still image is documented to fall back to WHOLE; reading from file is then
            # permitted but only demanded for an explicit WHOLE)
            file_required = file_ok and fits and plain and method == "whole"
        if has_file and data == src.bytes:
            # (source files carry a marker chunk: identical bytes == the file was read)
            if not file_ok:
                why = ("read_from_file is False" if not rff else "method LINES" if lines else
                       "the source is animated" if src.animated else
                       f"the file's pixels are not the expected pixels for alpha {alpha!r}")
                raise vio(f"{what}: payload is the untouched source file although {why} "
                          f"({src.kind} {src.fresh().mode} {src.fresh().size})",
                          clause="read_from_file", expected="reencoded", **sig)
            labels.append("payload:file")
            continue
        if file_required:
            raise vio(f"{what}: read_from_file applies (WHOLE, {src.kind} {src.fresh().mode} {src.fresh().size} "
                      f"within {W * cw}x{H * ch}, alpha {alpha!r}) but the payload is not the untouched source file",
                      clause="read_from_file", expected="file", **sig)
        dec = _decode(data, what, **sig)
        if getattr(dec, "n_frames", 1) != 1:
            raise vio(f"{what}: payload has {dec.n_frames} frames for a single-frame render", clause="payload", **sig)
        s, v = dec.size
        if lines:
            if (s, v) != (W * cw, ch):
                raise vio(f"{what}: LINES strip is {s}x{v}, expected {W * cw}x{ch}", clause="strip_size", **sig)
        else:
            _lower_bound(s, v, src, W, H, cw, ch, what, **sig)
        if dec.format == "JPEG":
            want_mode = "RGB" if isinstance(alpha, str) else refpx.target_mode(src.fresh().mode, alpha)
            if jq < 0 or want_mode != "RGB":
                raise vio(f"{what}: JPEG payload with jpeg_quality={jq} and an expected {want_mode} result",
                          clause="payload", key="jpeg", **sig)
            labels.append("payload:jpeg")
            if lines:
                strips.append(None)
            continue
        if dec.format != "PNG":
            raise vio(f"{what}: payload format {dec.format}, expected PNG", clause="payload", key="format", **sig)
        labels.append("payload:png")
        rgba = dec.convert("RGBA").tobytes()
        if lines:
            strips.append(rgba)
        elif dec.mode != "RGBA" and "transparency" in dec.info:
            # sharper diagnosis of one way of getting the pixels wrong: a colour-key (tRNS) chunk
            _compare(rgba, src, alpha, (s, v), bg, what,
                     note=f"; the {dec.mode} PNG carries a tRNS chunk {dec.info['transparency']!r}",
                     cause="png_trns", **sig)
        else:
            _compare(rgba, src, alpha, (s, v), bg, what, **sig)
    if lines and not native_anim:
        if any(x is None for x in strips):
            if not all(x is None for x in strips):
                raise vio("LINES render mixes JPEG and PNG strips", clause="payload", **sig)
        else:
            _compare(b"".join(strips), src, alpha, (W * cw, H * ch), bg,
                     f"LINES strips stitched ({H} x {ch} rows)", **sig)
    nontriv = [0, len(imgs), None, False] if (lines and H >= 2) else None
    return {"labels": sorted(set(labels)), "nontriv": nontriv}


def _native_anim(case, src, data, what, labels, **sig):
    from PIL import Image

    if src.bytes is not None:
        if data != src.bytes:
            raise vio(f"{what}: native animation of a file-backed source ({src.kind}) does not carry the "
                      f"source file's bytes ({len(data)} vs {len(src.bytes)} bytes)", clause="anim", **sig)
        labels.append("payload:anim_file")
        return
    dec = _decode(data, what, **sig)
    ref = Image.open(io.BytesIO(src.mem))
    n_ref = getattr(ref, "n_frames", 1)
    n_dec = getattr(dec, "n_frames", 1)
    if n_dec != n_ref:
        raise vio(f"{what}: re-encoded animation has {n_dec} frames, source has {n_ref}", clause="anim", **sig)
    # WebP re-encoding is lossy unless asked otherwise (like JPEG: content not compared)
    lossy = dec.format == "WEBP"
    for i in range(n_ref):
        ref.seek(i)
        dec.seek(i)
        if ref.size != dec.size:
            raise vio(f"{what}: frame {i} of the re-encoded animation is {dec.size}, source {ref.size}", clause="anim", **sig)
        if not lossy and ref.convert("RGBA").tobytes() != dec.convert("RGBA").tobytes():
            raise vio(f"{what}: frame {i} of the re-encoded {dec.format} animation differs from the source frame",
                      clause="anim", **sig)
    labels.append("payload:anim_reencoded_lossy" if lossy else "payload:anim_reencoded")


def flatten_cases():
    return cases(flatten=True)


CLAUSES = [
    Clause(
        "boundary",
        check_graphics,
        None,
        enumerate=boundary_cases,
        enum_size=boundary_size,
        budget={"quick": 0, "thorough": 0},
        floors={"near_boundary": 1.0, "chunks:2": 0.2, "chunks:3+": 0.5, "f:24": 0.5, "f:32": 0.5,
                "boundary:z:d=-1": 0.1, "boundary:z:d=-2": 0.1, "boundary:z:d=1": 0.1, "boundary:raw:d=0": 0.1},
    ),
    Clause(
        "graphics",
        check_graphics,
        cases,
        budget={"quick": 1200, "thorough": 40000},
        # measured minima over seeds 1..7 (quick) are >= 2x each floor
        floors={"style:kitty": 0.25, "style:iterm2": 0.25, "method:lines": 0.15, "method:whole": 0.2,
                "method:anim": 0.06, "chunks:2": 0.03, "chunks:3+": 0.012, "f:24": 0.15, "f:32": 0.04,
                "payload:png": 0.1, "payload:jpeg": 0.03, "payload:file": 0.008, "payload:anim_file": 0.012,
                "payload:anim_reencoded": 0.004, "blend_off": 0.02, "src:file": 0.12, "src:pil": 0.06,
                "src:pil_opened": 0.06},
    ),
    Clause(
        "flatten",
        check_graphics,
        flatten_cases,
        budget={"quick": 400, "thorough": 10000},
        floors={"style:kitty": 0.25, "style:iterm2": 0.25, "alpha:none": 0.25, "alpha:bg": 0.2,
                "srcmode:P+transparency": 0.1, "srcmode:RGBA": 0.08, "srcmode:LA": 0.05,
                "payload:png": 0.1},
        doc="transparency disabled / replaced by a background colour on sources that have transparency",
    ),
]
