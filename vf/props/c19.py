"""C19 — format specifiers are accepted and interpreted exactly as documented."""

from __future__ import annotations

import io
import itertools
import sys

from hypothesis import strategies as st

from ..core import Clause, Violation
from ..ref import fmtspec as R

ALPHABET = "<|>01.^-_#aF+LWAzmcx"
STYLES = ["block", "kitty", "iterm2"]
COLS, ROWS = 80, 30

META = {
    "level": "exploration",
    "rule": (
        "Clause enum: ALL strings over the 20-symbol alphabet '<|>01.^-_#aF+LWAzmcx' up to length 4 (quick) / 5 "
        "(thorough) for each of BlockImage/KittyImage/ITerm2Image, judged by a hand-written recursive-descent "
        "recogniser of the documented grammar (acceptance, exception type, denoted values). Clause sentences: "
        "grammar-generated sentences with full-length fields and one-edit near-sentences, checked through "
        "format(), ImageIterator(), UrwidImage() and against draw() with the denoted parameters. Non-trivial = "
        "string containing '.' or '+'; distinct = the (style, string) pair itself."
    ),
    "exhaustive": False,
    "assumptions": [
        "the specifier alphabet is ASCII; z-index range per the normative rule 'signed 32-bit excluding -(2**31)'",
        "a threshold whose decimal text rounds to the float 1.0 is excluded from the format()==draw() clause only",
    ],
}

I = env = None
CLS = {}


def setup():
    global I, env
    from .. import env as _env

    _env.install()
    import term_image.image as _I

    I, env = _I, _env
    CLS.update(block=I.BlockImage, kitty=I.KittyImage, iterm2=I.ITerm2Image)
    env.reset()
    env.apply(cols=COLS, rows=ROWS, cell=[2, 2], name="", version="")


# ----------------------------------------------------------------------------- oracle

def judge(style: str, spec: str, cols: int, rows: int, call):
    """Runs call() (which must return the library's 6-tuple or raise) and compares with the
    reference.  Returns ('accept', denotation) or ('reject', part)."""
    try:
        ref = R.parse(spec, style)
        ref_err = None
    except R.Reject as e:
        ref, ref_err = None, e
    try:
        got = call()
        got_exc = None
    except Exception as e:  # classified below
        got, got_exc = None, e
    sig = {"style": style}
    if ref_err is not None:
        if got_exc is None:
            raise Violation(
                f"{style}: spec {spec!r} is not a sentence of the documented grammar ({ref_err.why}) "
                f"but was accepted as {got!r}",
                {**sig, "kind": "accepted_invalid", "why": ref_err.why},
            )
        from term_image.exceptions import StyleError

        if ref_err.part == "base" and "+" not in spec:
            ok = isinstance(got_exc, ValueError)
        else:
            ok = isinstance(got_exc, (StyleError, ValueError))
        if not ok:
            raise Violation(
                f"{style}: invalid spec {spec!r} ({ref_err.part}: {ref_err.why}) raised "
                f"{type(got_exc).__name__}: {got_exc} instead of the documented error",
                {**sig, "kind": "wrong_exception"},
            )
        return "reject", ref_err.part
    if got_exc is not None:
        raise Violation(
            f"{style}: spec {spec!r} is a sentence of the documented grammar but was rejected with "
            f"{type(got_exc).__name__}: {got_exc}",
            {**sig, "kind": "rejected_valid"},
        )
    h, w, v, hh, alpha, sargs = ref
    pw, ph = R.resolve_pad(w, hh, cols, rows)
    exp = (h, pw, v, ph, alpha.lower() if isinstance(alpha, str) else alpha, sargs)
    g = tuple(got)
    gnorm = (g[0], g[1], g[2], g[3], g[4].lower() if isinstance(g[4], str) else g[4], dict(g[5]))
    if gnorm != exp or type(gnorm[4]) is not type(exp[4]):
        raise Violation(f"{style}: spec {spec!r} denotes {exp!r} but was interpreted as {gnorm!r}",
                        {**sig, "kind": "denotation"})
    return "accept", ref


# ----------------------------------------------------------------------------- enum clause

def enum_len(tier):
    return 4 if tier == "quick" else 5


def enum_size(tier):
    n = len(ALPHABET)
    return 3 * sum(n**k for k in range(enum_len(tier) + 1))


def enum_cases(tier, shard, nshards):
    i = 0
    for style in STYLES:
        for k in range(enum_len(tier) + 1):
            for tup in itertools.product(ALPHABET, repeat=k):
                if i % nshards == shard:
                    yield (style, "".join(tup))
                i += 1


def check_enum(case, rec):
    style, spec = case
    cls = CLS[style]
    res, _ = judge(style, spec, COLS, ROWS, lambda: cls._check_format_spec(spec))
    if res == "accept":
        rec.labels["accepted"] += 1
    if "." in spec or "+" in spec:
        rec.nontriv_disjoint([style, spec] if res == "accept" and len(spec) >= 4 else None)


# ----------------------------------------------------------------------------- sentences

digits = st.text("0123456789", min_size=1, max_size=4)
hexd = st.text("0123456789abcdefABCDEF", min_size=6, max_size=6)
ZVALS = ["0", "1", "-1", "5", "-0", "007", "2147483647", "-2147483647", "2147483648", "-2147483648",
         "99999999999", "-99999999999"]


@st.composite
def style_part(draw, style):
    if draw(st.integers(0, 2)) == 0:
        return ""
    parts = []
    meth = "LW" if style != "iterm2" else "LWA"
    if draw(st.booleans()):
        parts.append(draw(st.sampled_from(meth + ("A" if draw(st.integers(0, 5)) == 0 else ""))))
    if style == "kitty" or draw(st.integers(0, 6)) == 0:
        if draw(st.booleans()):
            parts.append("z" + draw(st.one_of(st.sampled_from(ZVALS), st.integers(-3000, 3000).map(str))))
    if draw(st.booleans()):
        parts.append("m" + draw(st.sampled_from(["0", "1", "1", "2", ""])))
    if draw(st.booleans()):
        parts.append("c" + draw(st.sampled_from(list("0123456789") + ["10", ""])))
    if draw(st.integers(0, 7)) == 0:
        parts = draw(st.permutations(parts))
    return "+" + "".join(parts)


@st.composite
def sentences(draw):
    style = draw(st.sampled_from(STYLES))
    h = draw(st.sampled_from(["", "", "<", "|", ">"]))
    w = draw(st.one_of(st.just(""), st.just(""), digits, st.sampled_from(["0", "1", "80", "81", "200", "007"])))
    vk = draw(st.integers(0, 5))
    if vk <= 1:
        vp = ""
    elif vk == 5:
        vp = "."
    else:
        va = draw(st.sampled_from(["", "^", "-", "_"]))
        hh = draw(st.one_of(st.just(""), digits, st.sampled_from(["0", "1", "28", "30", "31"])))
        vp = "." + va + hh
    ak = draw(st.integers(0, 9))
    if ak <= 2:
        a = ""
    elif ak == 3:
        a = "#"
    elif ak == 4:
        a = "##"
    elif ak in (5, 6):
        a = "#." + draw(st.one_of(st.text("0123456789", min_size=1, max_size=22),
                                   st.sampled_from(["0", "5", "999", "15686274509803922", "99999999999999999999"])))
    elif ak in (7, 8):
        a = "#" + draw(hexd)
    else:
        a = draw(st.sampled_from(["#.", "#" + "abcde", "#abcdefa", "###", "#g00000", "#.5.5"]))
    s = draw(style_part(style))
    spec = h + w + vp + a + s
    edit = draw(st.integers(0, 3))
    if edit == 0 and spec:
        kind = draw(st.sampled_from(["ins", "del", "sub", "swap"]))
        pos = draw(st.integers(0, len(spec) - 1))
        ch = draw(st.sampled_from(ALPHABET + "9bf 2"))
        if kind == "ins":
            spec = spec[:pos] + ch + spec[pos:]
        elif kind == "del":
            spec = spec[:pos] + spec[pos + 1 :]
        elif kind == "sub":
            spec = spec[:pos] + ch + spec[pos + 1 :]
        elif pos + 1 < len(spec):
            spec = spec[:pos] + spec[pos + 1] + spec[pos] + spec[pos + 2 :]
    return {
        "style": style, "spec": spec,
        "cols": draw(st.sampled_from([80, 80, 20, 5, 1, 120])), "rows": draw(st.sampled_from([30, 30, 3, 2, 1, 50])),
        "animated": draw(st.booleans()),
        "size": [draw(st.integers(1, 3)), draw(st.integers(1, 2))],
        "ident": draw(st.sampled_from([["", ""], ["kitty", "0.26.5"], ["konsole", "22.04.0"], ["wezterm", "2023"]])),
    }


_IMG = {}


def _image(style, animated):
    """A small image of the style (fresh per call; sources cached per process)."""
    from PIL import Image

    from .. import gen

    cls = CLS[style]
    if animated:
        spec = {"anim": True, "fmt": "GIF", "n": 3, "w": 2, "h": 2,
                "colors": [[200, 10, 10], [10, 200, 10], [10, 10, 200]], "duration": 100}
        key = ("a",)
        if key not in _IMG:
            _IMG[key] = Image.open(gen.anim_file(spec))
        return cls(_IMG[key])
    key = ("s",)
    if key not in _IMG:
        im = Image.new("RGBA", (2, 2), (10, 20, 30, 255))
        im.putpixel((1, 1), (200, 100, 50, 128))
        _IMG[key] = im
    return cls(_IMG[key])


_STATE_ATTRS = ("_render_method", "_supported", "_forced_support", "_jpeg_quality", "_read_from_file",
                "_TERM", "_TERM_VERSION", "_KITTY_VERSION")


def _cls_state(cls):
    return {k: repr(vars(c).get(k, "<unset>")) for c in cls.__mro__[:-1] for k in _STATE_ATTRS}


def check_sentence(case, rec):
    from term_image.widget import UrwidImage

    style, spec = case["style"], case["spec"]
    cols, rows = case["cols"], case["rows"]
    env.reset()
    env.apply(cols=cols, rows=rows, cell=[2, 2], name=case["ident"][0], version=case["ident"][1])
    UrwidImage._ti_next_z_index = 1
    UrwidImage._ti_free_z_indexes.clear()
    cls = CLS[style]
    image = _image(style, case["animated"])
    image.set_size(*case["size"])
    if case["animated"]:
        image.seek(1)

    res, ref = judge(style, spec, cols, rows, lambda: cls._check_format_spec(spec))
    rec.label(res, f"style:{style}")
    if "." in spec or "+" in spec:
        rec.nontriv([style, spec])

    if res == "accept":
        pw_, ph_ = R.resolve_pad(ref[1], ref[3], cols, rows)
        if pw_ * ph_ > 250_000:  # padding is materialised as a string: keep memory bounded
            rec.label("huge_pad_skipped")
            return
    # --- public entry points agree; rejected ones have no side effect ----------------
    size_before, tell_before = image.size, image.tell()
    cls_state = _cls_state(cls)
    real_stdout = sys.stdout
    cap = io.StringIO()
    sys.stdout = cap
    outcomes = {}
    fmt_out = None
    try:
        try:
            fmt_out = format(image, spec)
            outcomes["format"] = None
        except Exception as e:
            outcomes["format"] = e
        if case["animated"]:
            try:
                it = I.ImageIterator(image, 1, spec)
                it.close()
                outcomes["ImageIterator"] = None
            except Exception as e:
                outcomes["ImageIterator"] = e
        try:
            w = UrwidImage(image, spec)
            zdiff = None
            if style == "kitty" and w._ti_style_args.get("z_index") != w._ti_z_index:
                zdiff = (w._ti_style_args.get("z_index"), w._ti_z_index)
            del w
            outcomes["UrwidImage"] = None
            if zdiff:
                # documented for UrwidImage: the z-index field of the specifier is ignored (one z-index per widget)
                raise Violation(f"{style}: UrwidImage(image, {spec!r}) renders on z-index {zdiff[0]} instead of the one allocated "
                                f"to the widget ({zdiff[1]})", {"kind": "widget_z_from_spec"})
        except Violation:
            raise
        except Exception as e:
            outcomes["UrwidImage"] = e
    finally:
        sys.stdout = real_stdout
    from term_image.exceptions import StyleError

    for api, exc in outcomes.items():
        if res == "accept" and exc is not None:
            raise Violation(f"{style}: valid spec {spec!r} rejected by {api}: {type(exc).__name__}: {exc}",
                            {"style": style, "kind": "rejected_valid", "api": api})
        if res == "reject":
            if exc is None:
                raise Violation(f"{style}: invalid spec {spec!r} ({ref}) accepted by {api}",
                                {"style": style, "kind": "accepted_invalid", "api": api})
            if not isinstance(exc, (ValueError, StyleError)):
                raise Violation(f"{style}: invalid spec {spec!r} made {api} raise {type(exc).__name__}: {exc}",
                                {"style": style, "kind": "wrong_exception", "api": api})
    if image.size != size_before or image.tell() != tell_before:
        raise Violation(f"{style}: spec {spec!r} changed image size/frame: {size_before},{tell_before} -> "
                        f"{image.size},{image.tell()}", {"kind": "side_effect"})
    if res == "reject":
        if cap.getvalue():
            raise Violation(f"{style}: rejected spec {spec!r} wrote {cap.getvalue()!r} to stdout", {"kind": "side_effect"})
        if _cls_state(cls) != cls_state:
            raise Violation(f"{style}: rejected spec {spec!r} changed class state", {"kind": "side_effect"})
        return

    # --- accepted: formatting == drawing with the denoted explicit parameters ---------
    h, w_, v, hh, alpha, sargs = ref
    if isinstance(alpha, float) and alpha >= 1.0:
        rec.count("excluded_threshold_rounds_to_1")
        return
    pw, ph = R.resolve_pad(w_, hh, cols, rows)
    if pw > cols:
        rec.label("pad_wider_than_terminal")
        return
    cap = io.StringIO()
    sys.stdout = cap
    try:
        try:
            image.draw(h, 0 if w_ is None else w_, v, -2 if hh is None else hh, alpha,
                       animate=False, check_size=False, scroll=True, **sargs)
        except Exception as e:
            raise Violation(f"{style}: draw() with the parameters denoted by {spec!r} raised "
                            f"{type(e).__name__}: {e}", {"kind": "draw_equiv"})
    finally:
        sys.stdout = real_stdout
    # independent of draw() (which shares the padding helper): the denoted padding size itself
    Wr, Hr = image.rendered_size
    want_w, want_h = max(pw, Wr), max(ph, Hr)
    out_lines = fmt_out.split("\n")
    if len(out_lines) != want_h:
        raise Violation(f"{style}: format(image, {spec!r}) has {len(out_lines)} lines, the specifier denotes a padding height of "
                        f"{ph} around a {Wr}x{Hr} render = {want_h} lines", {"kind": "padded_size", "axis": "height"})
    if style == "block":
        import re as _re

        for i, ln in enumerate(out_lines):
            vis = len(_re.sub(r"\x1b\[[0-9;]*m", "", ln))
            if vis != want_w:
                raise Violation(f"{style}: line {i} of format(image, {spec!r}) is {vis} columns wide, the specifier denotes a padding "
                                f"width of {pw} around a {Wr}x{Hr} render = {want_w} columns", {"kind": "padded_size", "axis": "width"})
    exp = fmt_out + "\x1b[m\n"
    if cap.getvalue() != exp:
        raise Violation(
            f"{style}: format(image, {spec!r}) differs from draw() with the denoted parameters "
            f"(h={h!r}, w={w_!r}, v={v!r}, h={hh!r}, alpha={alpha!r}, {sargs}): "
            f"{fmt_out[:120]!r}... vs {cap.getvalue()[:120]!r}...", {"kind": "draw_equiv"})
    rec.label("draw_equiv_checked")


CLAUSES = [
    Clause("enum", check_enum, None, enumerate=enum_cases, enum_size=enum_size, enum_sharded=True),
    Clause("sentences", check_sentence, sentences, budget={"quick": 4000, "thorough": 200000},
           floors={"accept": 0.2, "reject": 0.2, "draw_equiv_checked": 0.1}),
]
