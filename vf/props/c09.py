"""C09 — frame caching is invisible except for speed."""

from __future__ import annotations

from hypothesis import strategies as st

from .. import gen, iterlab
from ..core import Clause, Violation

META = {
    "thorough_scale": 2,
    "level": "exploration",
    "rule": (
        "Differential testing. Clause render_pairs: the C08 op histories are run on two iterators over two "
        "identical instrumented renderables, one with caching disabled and one with cache in {True, n-1, n, n+1}, "
        "loops in {2,3,-1}; frames, exceptions and loop values must agree step by step, and within a settings "
        "epoch (no effective change of size/duration/args/padding) the cached iterator never renders a frame "
        "number twice. Clause image_pairs: ImageIterator(cached=False) vs ImageIterator(cached=True|n|n+1) on two "
        "images from the same animated file with next/seek/size-change/terminal-resize/close ops. Non-trivial = a "
        "frame revisited (second loop or backward seek) after a setting changed and/or changed back; distinct by "
        "(which settings changed, revisit kind, cache relation to n, op-kind sequence hash)."
    ),
    "assumptions": ["a padding change is treated as a settings change for the no-second-render clause (lenient reading)"],
}

env = P = I = None


def setup():
    global env, P, I
    from .. import env as _env, hren

    _env.install()
    import term_image.image as _I
    import term_image.padding as _P
    import term_image.render  # noqa

    env, P, I = _env, _P, _I
    hren.classes()


# ------------------------------------------------------------------------------ render iterator pairs

@st.composite
def pair_cases(draw):
    s = draw(iterlab.setups(kinds=("grid", "grid", "sub"), loops=(2, 3, -1)))
    n = s["n"]
    s["cache"] = draw(st.sampled_from([True, True, n, n + 1, max(1, n - 1)]))
    s["ctor"] = draw(st.sampled_from(["init", "init", "from_data"]))
    ops = draw(iterlab.ops(n_hint=n, max_len=35))
    if draw(st.integers(0, 2)) == 0:
        # a caller-supplied padding class that refuses one render size: set_render_size() to that size fails part-way
        # (then a regular padding is set again and iteration goes on)
        ops.insert(draw(st.integers(0, len(ops))), {"op": "fussy_size", "w": draw(st.integers(1, 6)), "h": draw(st.integers(1, 4))})
    return {"setup": s, "ops": ops}


def check_pair(case, rec):
    from .. import hren

    s = case["setup"]
    H = hren.classes()
    env.reset()
    H["forget"]()
    env.apply(cols=s["cols"], rows=s["rows"])
    try:
        A = iterlab.Lab(s, env, cache_override=False)
        B = iterlab.Lab(s, env)
    except Exception as e:
        raise Violation(f"constructing iterators for {s} raised {type(e).__name__}: {e}", {"kind": "ctor"})
    m = B.model()
    cached = s["cache"] is True or s["cache"] >= s["n"]
    if bool(B.it._cached) != cached:
        pass  # internal flag not part of the property; the differential below is what counts
    epoch_start = 0  # index into B.r.log
    seen_in_epoch = set()
    changed = set()
    revisit = False
    visited = set()
    kinds = []
    trace = []
    expanded = []
    fussy = False
    for o in case["ops"]:
        expanded += [{"op": "next"}] * o["k"] if o["op"] == "nexts" else [o]
    for o in expanded:
        k = o["op"]
        kinds.append(k)
        if k == "rseek":
            for L in (A, B):
                L.r.seek(o["k"] % s["n"])
            continue
        if k == "resize":
            env.apply(cols=o["cols"], rows=o["rows"])
            m.term = (o["cols"], o["rows"])
            continue
        if k == "decoy":
            for L in (A, B):
                L.decoy()
            continue
        if k == "tell":
            continue
        if k == "fussy_size":
            from term_image.geometry import Size

            class _Refused(Exception):
                pass

            class Fussy(P.ExactPadding):
                def get_padded_size(self, size, _t=(o["w"], o["h"])):
                    if tuple(size) == _t:
                        raise _Refused(f"size {_t} refused")
                    return super().get_padded_size(size)

            res = []
            for L in (A, B):
                try:
                    L.it.set_padding(Fussy(1, 0, 0, 0))
                    L.it.set_render_size(Size(o["w"], o["h"]))
                    res.append("accepted")
                except _Refused:
                    res.append("refused")
                    L.it.set_padding(P.ExactPadding(0, 1, 0, 0))
                except Exception as e:
                    res.append(type(e).__name__)
            if res[0] != res[1]:
                raise Violation(f"cached and uncached iterators diverge at {o}: {res}", {"kind": "diverge", "op": k})
            trace.append((k, res[0]))
            if res[0] == "refused":
                # from here on the model of the settings no longer applies: only the differential is judged
                fussy = True
                changed.add("fussy_size")
            continue
        before = m.settings_key()
        if k == "next":
            exp = m.op_next()
            if exp[0] == "frame":
                if exp[1] in visited and changed:
                    revisit = True
                visited.add(exp[1])
        elif k == "seek":
            m.op_seek(o["off"], o["whence"])
        elif k == "dur":
            m.op_dur(o["v"])
        elif k == "pad":
            m.op_pad(o["spec"], o["fill"])
        elif k == "size":
            m.op_size(o["w"], o["h"])
        elif k == "args":
            m.op_args(B.args_compat(o), 0 if o["kind"] == "base" else o["salt"], 3 if o["kind"] == "sub" else 0)
        elif k == "close":
            m.op_close()
        if m.settings_key() != before:
            changed.add(k)
            seen_in_epoch = set()
        a, b = A.do(o), B.do(o)
        trace.append((k, a[:4] if a[0] == "frame" else a))
        if a != b:
            raise Violation(
                f"cached and uncached iterators diverge at op {o}: uncached {a[:5]!r} vs cached {b[:5]!r}\n"
                f"  setup={s}\n  trace={trace[-8:]}", {"kind": "diverge", "op": k})
        if A.it.loop != B.it.loop:
            raise Violation(f"loop differs after {o}: {A.it.loop} vs {B.it.loop}", {"kind": "loop"})
        if k == "next" and cached and not fussy:
            new = [e for e in B.r.log[epoch_start:] if e[0] == "render"]
            epoch_start = len(B.r.log)
            for e in new:
                if e[1] in seen_in_epoch:
                    raise Violation(
                        f"cached iterator rendered frame {e[1]} a second time although no setting changed\n"
                        f"  setup={s}\n  trace={trace[-10:]}", {"kind": "rerender"})
                seen_in_epoch.add(e[1])
    A.it.close()
    B.it.close()
    rec.label("cached" if cached else "cache_below_n", "revisit_after_change" if revisit else "plain", *(["refused_size"] if fussy else []),
              *[f"chg:{c}" for c in sorted(changed)])
    if revisit:
        rec.nontriv([sorted(changed), cached, s["cache"] is True, kinds])


# ------------------------------------------------------------------------------ image iterator pairs

@st.composite
def image_pair_cases(draw):
    img = draw(gen.anim_image(max_frames=4, max_w=4, max_h=4))
    n = img["n"]
    ops = []
    for _ in range(draw(st.integers(2, 22))):
        k = draw(st.sampled_from(["next", "next", "next", "nexts", "seek", "set_size", "dynamic", "resize", "close"] ))
        o = {"op": k}
        if k == "nexts":
            o["k"] = draw(st.integers(2, n + 1))
        elif k == "seek":
            o["pos"] = draw(st.integers(-1, n))
        elif k == "set_size":
            o["w"], o["h"] = draw(st.integers(1, 6)), draw(st.integers(1, 4))
        elif k == "dynamic":
            o["mode"] = draw(st.sampled_from(["FIT", "AUTO", "ORIGINAL"]))
        elif k == "resize":
            o["cols"], o["rows"] = draw(st.integers(1, 12)), draw(st.integers(3, 8))
        ops.append(o)
    return {
        "image": img, "style": draw(st.sampled_from(["block", "kitty", "iterm2"])),
        "repeat": draw(st.sampled_from([2, 3, -1])), "cached": draw(st.sampled_from([True, n, n + 1, 100])),
        "spec": draw(st.sampled_from(["", "1.1", "<8.^5", ">7._4#", "|6.-3##", "#.5", "#102030"])),
        # a per-iteration override of style arguments (graphics styles), e.g. the render method
        "sspec": draw(st.sampled_from(["", "", "+W", "+L", "+Lc0", "+Wm1"])),
        "ops": ops, "cols": draw(st.integers(4, 12)), "rows": draw(st.integers(4, 8)),
    }


def check_image_pair(case, rec):
    env.reset()
    env.apply(cols=case["cols"], rows=case["rows"], cell=[2, 2], name="", version="")
    cls = {"block": I.BlockImage, "kitty": I.KittyImage, "iterm2": I.ITerm2Image}[case["style"]]
    path = gen.anim_file(case["image"])
    ia, ib = cls.from_file(path), cls.from_file(path)
    spec = case["spec"]
    ss = case.get("sspec", "")
    if ss and case["style"] != "block":
        if case["style"] == "iterm2":
            ss = {"+Lc0": "+Lc0", "+Wm1": "+W"}.get(ss, ss)
        spec += ss
    try:
        A = I.ImageIterator(ia, case["repeat"], spec, False)
        B = I.ImageIterator(ib, case["repeat"], spec, case["cached"])
    except Exception as e:
        raise Violation(f"ImageIterator construction raised {type(e).__name__}: {e}", {"kind": "ctor"})

    def step(it, image, o):
        k = o["op"]
        try:
            if k == "next":
                try:
                    return ("frame", next(it), image.tell())
                except StopIteration:
                    return ("stop", image.tell())
            if k == "seek":
                it.seek(o["pos"])
            elif k == "set_size":
                image.set_size(o["w"], o["h"])
            elif k == "dynamic":
                image.size = I.Size[o["mode"]]
            elif k == "close":
                it.close()
            return ("ok", image.tell())
        except Exception as e:
            if gen.is_pil_apng_defect(e):
                return ("pil_apng_defect",)
            return ("err", type(e).__name__)

    size_changed = False
    revisit = False
    seen = set()
    kinds = []
    expanded = []
    for o in case["ops"]:
        expanded += [{"op": "next"}] * o["k"] if o["op"] == "nexts" else [o]
    for o in expanded:
        kinds.append(o["op"])
        if o["op"] == "resize":
            env.apply(cols=o["cols"], rows=o["rows"])
            size_changed = True
            continue
        if o["op"] in ("set_size", "dynamic"):
            size_changed = True
        a, b = step(A, ia, o), step(B, ib, o)
        if "pil_apng_defect" in (a[0], b[0]):
            # Pillow's own APNG decoder failed on a backward seek (see gen.is_pil_apng_defect): excluded, counted
            for x in (A, B, ia, ib):
                x.close()
            rec.label("excluded:pil_apng_seek_defect")
            rec.count("excluded_pil_apng_seek_defect", 1)
            return
        if a != b:
            raise Violation(
                f"cached and uncached ImageIterator diverge at {o}: {str(a)[:200]} vs {str(b)[:200]} "
                f"(style {case['style']}, spec {spec!r}, repeat {case['repeat']}, cached {case['cached']}, ops {kinds})",
                {"kind": "image_diverge", "op": o["op"]})
        if a[0] == "frame":
            t = a[2]
            if t in seen and size_changed:
                revisit = True
            seen.add(t)
        if A.loop_no != B.loop_no:
            raise Violation(f"loop_no differs after {o}: {A.loop_no} vs {B.loop_no}", {"kind": "loop_no"})
    A.close()
    B.close()
    ia.close()
    ib.close()
    rec.label(f"style:{case['style']}", "revisit_after_size_change" if revisit else "plain")
    if revisit:
        rec.nontriv([case["style"], spec, kinds, case["cached"] is True])


CLAUSES = [
    Clause("render_pairs", check_pair, pair_cases, budget={"quick": 1500, "thorough": 40000},
           floors={"revisit_after_change": 0.15, "cached": 0.5}),
    Clause("image_pairs", check_image_pair, image_pair_cases, budget={"quick": 500, "thorough": 8000},
           floors={"revisit_after_size_change": 0.1}),
]
