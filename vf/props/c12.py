"""C12 — terminal queries report what the terminal said, whatever the timing."""

from __future__ import annotations

import os

from hypothesis import strategies as st

from ..core import Clause, Violation
from ..ref import queries as R

META = {
    "thorough_scale": 3,
    "level": "exploration",
    "rule": (
        "SimTTY: the library talks to a real pty whose master side is a scripted terminal; time is virtual "
        "(utils.select/monotonic replaced), so every generated reply schedule (per-reply delays, 0 = same write "
        "burst; total per query < timeout) is exact and reproducible. Generated profiles: identity reply "
        "name(version)/name version incl. versions around 0.20.0 and 22.04.0, env fallback, fg/bg rgb: replies "
        "with 1-4 hex digits per component independently, ST/BEL, any subset of unsupported queries (OSC 10/11, "
        "XTVERSION, XTWINOPS 14/16, kitty graphics OK/error/silent, DA1), ioctl pixel size present/zero, win-size "
        "swap, Termux SHELL, queries disabled. 1-4 calls per case among get_fg_bg_colors(hex), "
        "get_terminal_name_version, get_cell_size, KittyImage/ITerm2Image.is_supported, auto_image_class, "
        "AutoImage, from_file, set_cell_ratio(FIXED/DYNAMIC). Oracle: vf.ref.queries + no unread bytes left on "
        "the pty + bounded virtual waiting. Non-trivial = >= 2 bursts with a positive delay, or a non-empty "
        "unsupported subset, or mixed component widths; distinct by (calls, supported-set, burst shape, widths)."
    ),
    "assumptions": [
        "each reply is written to the pty as one unit; total reply delay per query is below the query timeout",
        "virtual time: a patched select() advances the clock instead of sleeping (cross-checked in real time by clause realtime)",
    ],
}

T = U = TI = I = simtty = None


def setup():
    global T, U, TI, I, simtty
    from .. import simtty as _simtty

    simtty = _simtty
    T = simtty.install()
    import term_image
    import term_image.image as _I
    import term_image.utils as _U

    U, TI, I = _U, term_image, _I


# ------------------------------------------------------------------------------------ generation

hexdig = "0123456789abcdefABCDEF"


def comp():
    return st.integers(1, 4).flatmap(lambda n: st.text(hexdig, min_size=n, max_size=n))


@st.composite
def color_spec(draw):
    if draw(st.integers(0, 2)) == 0:  # mixed widths
        cs = [draw(comp()) for _ in range(3)]
    else:
        n = draw(st.sampled_from([4, 4, 2, 1, 3]))
        cs = [draw(st.text(hexdig, min_size=n, max_size=n)) for _ in range(3)]
    return "rgb:" + "/".join(cs)


NAMES = ["kitty", "kitty", "konsole", "konsole", "WezTerm", "iTerm2", "tmux", "XTerm", "foot", "mlterm", "Konsole", "contour"]
VERSIONS = {
    "kitty": ["0.19.3", "0.20.0", "0.20.1", "0.25.0", "0.26.5", "0.x", "1.0.0", "0.20", "0.21", "1.0", "1", "0.20.0.1"],
    "konsole": ["21.12.3", "22.04.0", "22.03.90", "22.04", "23.08.1", "22.4.0a", "22.12.0"],
}


@st.composite
def profiles(draw):
    p = {}
    if draw(st.integers(0, 5)) != 0:
        name = draw(st.sampled_from(NAMES))
        vs = VERSIONS.get(name.lower(), ["380", "3.4.19", "20230712-072601-f4abf8fd", "1.2.3"])
        ver = draw(st.sampled_from(vs))
        p["xtversion"] = [draw(st.sampled_from(["paren", "space"])), name, ver]
    else:
        p["xtversion"] = None
    p["fg"] = draw(st.one_of(st.none(), color_spec()))
    p["bg"] = draw(st.one_of(st.none(), color_spec()))
    p["osc_term"] = draw(st.sampled_from(["ST", "BEL"]))
    p["da1"] = draw(st.integers(0, 9)) != 0
    p["winops14"] = draw(st.one_of(st.none(), st.tuples(st.integers(0, 2000), st.integers(0, 3000)).map(list)))
    p["winops16"] = draw(st.one_of(st.none(), st.none(), st.tuples(st.integers(0, 40), st.integers(0, 20)).map(list)))
    p["kitty"] = draw(st.sampled_from([None, None, "OK", "OK", "OK", "ENOTSUP:unsupported", "EINVAL:bad key", "ok", "EBADF:cannot read"]))
    nd = draw(st.integers(1, 4))
    p["delays"] = [draw(st.sampled_from([0.0, 0.0, 0.001, 0.01, 0.029, 0.0299])) for _ in range(nd)]
    return p


CALLS = ["swap_toggle", "proc_start", "bad_timeout", "colors", "colors_hex", "colors_hex_false", "name_version", "cell_size", "kitty", "iterm2", "auto_class", "AutoImage",
         "kitty_sub", "iterm2_sub", "from_file", "ratio_fixed", "ratio_dynamic"]


@st.composite
def cases(draw):
    c = {"profile": draw(profiles())}
    c["win"] = [draw(st.integers(1, 200)), draw(st.integers(1, 80))] + draw(
        st.sampled_from([[0, 0], [0, 0], [800, 600], [0, 600], [1280, 0], [199, 79], [1600, 1200]]))
    c["swap"] = draw(st.booleans()) if draw(st.integers(0, 3)) == 0 else False
    c["enabled"] = draw(st.integers(0, 7)) != 0
    env = {}
    ek = draw(st.integers(0, 5))
    if ek == 0:
        env["TERM_PROGRAM"] = draw(st.sampled_from(["iTerm.app", "WezTerm", "konsole", "kitty", "vscode", "iTerm2"]))
        if draw(st.booleans()):
            env["TERM_PROGRAM_VERSION"] = draw(st.sampled_from(["3.4.19", "22.04.0", "0.26.5", "1.2"]))
    if draw(st.integers(0, 9)) == 0:
        env["SHELL"] = "/data/data/com.termux/files/usr/bin/bash"
    c["environ"] = env
    c["calls"] = draw(st.lists(st.sampled_from(CALLS), min_size=1, max_size=4))
    # the query timeout set by the application (set_query_timeout); reply delays scale with it, so that with a longer
    # timeout replies may take longer than the default 0.1 s and still be on time
    c["timeout"] = draw(st.sampled_from([0.1, 0.1, 0.1, 0.25, 0.05]))
    c["profile"]["delays"] = [d * c["timeout"] / 0.1 for d in c["profile"]["delays"]]
    return c


# ------------------------------------------------------------------------------------ execution

_ORIG_LOCKS = {}


def reset_lib():
    # undo the lock / cell-size-cache migration done by a previous case's Process.start()
    if not _ORIG_LOCKS:
        _ORIG_LOCKS.update(tty=U._tty_lock, cs_lock=U._cell_size_lock)
    U._tty_lock = _ORIG_LOCKS["tty"]
    U._cell_size_lock = _ORIG_LOCKS["cs_lock"]
    U._cell_size_cache = [0] * 4
    TI.enable_queries()
    U._queries_enabled = True
    U._swap_win_size = False
    U._query_timeout = 0.1
    U.get_fg_bg_colors._invalidate_cache()
    U.get_terminal_name_version._invalidate_cache()
    with U._cell_size_lock:
        U._cell_size_cache[:] = (0,) * 4
    TI._cell_ratio = 0.5
    TI.AutoCellRatio.is_supported = None
    for cls in (I.KittyImage, I.ITerm2Image, I.BlockImage):
        type.__setattr__(cls, "_supported", None)
        type.__setattr__(cls, "_forced_support", False)
    I.TextImage._is_on_kitty._invalidate_cache() if hasattr(I.TextImage._is_on_kitty, "_invalidate_cache") else None


_IMG_FILE = None


def img_file():
    global _IMG_FILE
    if _IMG_FILE is None:
        import tempfile

        from PIL import Image

        fd, _IMG_FILE = tempfile.mkstemp(suffix=".png", prefix="vf-c12-")
        os.close(fd)
        Image.new("RGB", (3, 3), (1, 2, 3)).save(_IMG_FILE)
        import atexit

        atexit.register(lambda: os.path.exists(_IMG_FILE) and os.remove(_IMG_FILE))
    return _IMG_FILE


def check_queries(c, rec):
    from ..simtty import UnboundedWait

    p = c["profile"]
    cols, rows, xp, yp = c["win"]
    reset_lib()
    simtty.set_winsize(cols, rows, xp, yp)
    saved_env = {k: os.environ.get(k) for k in ("TERM_PROGRAM", "TERM_PROGRAM_VERSION", "SHELL")}
    for k in saved_env:
        os.environ.pop(k, None)
    os.environ.update(c["environ"])
    T.reset(p)
    if c.get("timeout", 0.1) != 0.1:
        TI.set_query_timeout(c["timeout"])
    if c["swap"]:
        TI.enable_win_size_swap()
    if not c["enabled"]:
        TI.disable_queries()
    enabled = c["enabled"]
    swap = c["swap"]
    environ = c["environ"]
    timeout = U._query_timeout
    ctx = f"profile={p} win={c['win']} swap={c['swap']} enabled={enabled} env={environ} timeout={timeout}"
    try:
        for call in c["calls"]:
            t0, s0 = T.now, T.selects
            try:
                if call == "swap_toggle":
                    # toggled in the middle of a run (cached cell size at an unchanged terminal size)
                    (TI.disable_win_size_swap if swap else TI.enable_win_size_swap)()
                    swap = not swap
                    got = exp = None
                elif call == "bad_timeout":
                    # rejected settings must not take effect ("rejected ... without changing anything" is the library-wide rule)
                    for bad in (0.0, -1.0, 0):
                        try:
                            TI.set_query_timeout(bad)
                        except (ValueError, TypeError):
                            pass
                        else:
                            raise Violation(f"set_query_timeout({bad!r}) was accepted", {"kind": "timeout_validation"})
                    if U._query_timeout != timeout:
                        raise Violation(f"a rejected set_query_timeout() call changed the timeout in effect: {timeout} -> {U._query_timeout} [{ctx}]",
                                        {"kind": "timeout_rejected_but_set"})
                    got = exp = None
                elif call == "proc_start":
                    # the first Process.start() moves the library's locks and its cell-size cache to multi-process objects
                    from multiprocessing import Process

                    orig = U._process_start_wrapper.__wrapped__
                    U._process_start_wrapper.__wrapped__ = lambda self, *a, **kw: None
                    try:
                        Process(target=print).start()
                    finally:
                        U._process_start_wrapper.__wrapped__ = orig
                    got = exp = None
                elif call == "colors":
                    got = U.get_fg_bg_colors()
                    exp = R.colors(p, enabled)
                elif call == "colors_hex":
                    got = U.get_fg_bg_colors(hex=True)
                    exp = tuple(map(R.hexs, R.colors(p, enabled)))
                elif call == "colors_hex_false":
                    got = U.get_fg_bg_colors(hex=False)
                    exp = R.colors(p, enabled)
                elif call == "name_version":
                    got = U.get_terminal_name_version()
                    exp = R.name_version(p, environ, enabled)
                elif call == "cell_size":
                    got = U.get_cell_size()
                    got = got and tuple(got)
                    exp = R.cell_size(p, c["win"], swap, environ, enabled)
                elif call == "kitty":
                    got, exp = I.KittyImage.is_supported(), R.kitty_supported(p, environ, enabled)
                elif call == "iterm2":
                    got, exp = I.ITerm2Image.is_supported(), R.iterm2_supported(p, environ, enabled)
                elif call == "kitty_sub":
                    # a user subclass asks (possibly before the style class itself was ever asked): same answer
                    Sub = type(I.KittyImage)("SubKitty", (I.KittyImage,), {})
                    got, exp = (Sub.is_supported(), Sub.is_supported()), (R.kitty_supported(p, environ, enabled),) * 2
                elif call == "iterm2_sub":
                    Sub = type(I.ITerm2Image)("SubITerm2", (I.ITerm2Image,), {})
                    got, exp = (Sub.is_supported(), Sub.is_supported()), (R.iterm2_supported(p, environ, enabled),) * 2
                elif call == "auto_class":
                    got, exp = I.auto_image_class().__name__, R.auto_class(p, environ, enabled)
                elif call == "AutoImage":
                    from PIL import Image

                    got = type(I.AutoImage(Image.new("RGB", (2, 2)))).__name__
                    exp = R.auto_class(p, environ, enabled)
                elif call == "from_file":
                    im = I.from_file(img_file())
                    got, exp = type(im).__name__, R.auto_class(p, environ, enabled)
                    im.close()
                else:
                    cs = R.cell_size(p, c["win"], swap, environ, enabled)
                    mode = TI.AutoCellRatio.FIXED if call == "ratio_fixed" else TI.AutoCellRatio.DYNAMIC
                    TI.AutoCellRatio.is_supported = None  # support is determined once (documented); judged afresh per call here
                    try:
                        TI.set_cell_ratio(mode)
                        got = ("ok", TI.get_cell_ratio())
                    except TI.exceptions.TermImageError:
                        got = ("unsupported", TI.get_cell_ratio())
                    exp = ("ok", cs[0] / cs[1]) if cs else ("unsupported", 0.5)
                    TI._cell_ratio = 0.5
            except UnboundedWait as e:
                raise Violation(f"{call}: {e} [{ctx}]", {"kind": "unbounded_wait", "call": call})
            except Violation:
                raise
            except Exception as e:
                raise Violation(f"{call} raised {type(e).__name__}: {e} [{ctx}]",
                                {"kind": "exception", "call": call, "exc": type(e).__name__})
            if got != exp:
                raise Violation(f"{call} returned {got!r}, the terminal said {exp!r} [{ctx}] bursts={T.log[-6:]}",
                                {"kind": "wrong_result", "call": call})
            # bounded waiting: at most `timeout` of virtual time per read phase; a call issues <= 3 queries
            if T.max_wait > timeout + 1e-9:
                raise Violation(f"{call}: a single wait lasted {T.max_wait}s > timeout {timeout}s [{ctx}]", {"kind": "wait"})
            if T.now - t0 > 4 * timeout + 1e-9:
                raise Violation(f"{call} took {T.now - t0:.3f}s of virtual time (timeout {timeout}) [{ctx}]", {"kind": "wait"})
            if not enabled and T.requests:
                raise Violation(f"{call}: queries are disabled but requests {T.requests} were sent [{ctx}]", {"kind": "disabled"})
            T.flush_all()
            left = T.unread_bytes()
            if left:
                raise Violation(f"{call}: reply bytes left unread on the terminal: {left!r} [{ctx}] bursts={T.log[-6:]}",
                                {"kind": "unread", "call": call})
    finally:
        for k, v in saved_env.items():
            os.environ.pop(k, None)
            if v is not None:
                os.environ[k] = v
        T.flush_all()
        T.unread_bytes()
    unsupported = [k for k in ("fg", "bg", "xtversion", "winops14", "winops16", "kitty") if not p.get(k)] + ([] if p["da1"] else ["da1"])
    mixed = any(s and len({len(x) for x in s.partition(":")[2].split("/")}) > 1 for s in (p["fg"], p["bg"]))
    bursts = sum(1 for d in p["delays"] if d > 0)
    rec.label("enabled" if enabled else "disabled", "mixed_widths" if mixed else "uniform_widths",
              "delayed" if bursts else "immediate", *[f"call:{x}" for x in set(c["calls"])])
    if bursts or unsupported or mixed:
        rec.nontriv([sorted(set(c["calls"])), unsupported, [d > 0 for d in p["delays"]], mixed, enabled])


# ------------------------------------------------------------------------------------ real-time cross-check

@st.composite
def rt_cases(draw):
    c = draw(cases())
    c["profile"]["delays"] = [draw(st.sampled_from([0.0, 0.002, 0.01, 0.03])) for _ in range(3)]
    c["profile"]["da1"] = True  # a silent terminal would cost a full real-time timeout per query
    c["enabled"] = True
    c["calls"] = [x for x in c["calls"] if x not in ("swap_toggle", "proc_start", "bad_timeout")][:2] or ["colors"]
    return c


def check_realtime(c, rec):
    """The same oracle with the real select()/monotonic() and a responder thread: the simulation and
    the real kernel path must agree.  Time-outs are inconclusive, never violations."""
    import select as _sel
    import time as _time

    from ..core import HarnessError
    from ..simtty import RealTimeDriver

    saved = (U.select, U.monotonic)
    U.select, U.monotonic = _sel.select, _time.monotonic
    try:
        # reuse the virtual-time check body, but under real time: it only relies on T for bookkeeping
        p = c["profile"]
        cols, rows, xp, yp = c["win"]
        reset_lib()
        U._query_timeout = 2.0
        simtty.set_winsize(cols, rows, xp, yp)
        saved_env = {k: os.environ.get(k) for k in ("TERM_PROGRAM", "TERM_PROGRAM_VERSION", "SHELL")}
        for k in saved_env:
            os.environ.pop(k, None)
        os.environ.update(c["environ"])
        T.reset(p)
        if c["swap"]:
            TI.enable_win_size_swap()
        environ = c["environ"]
        try:
            with RealTimeDriver(T):
                for call in c["calls"]:
                    t0 = _time.monotonic()
                    if call in ("colors", "colors_hex", "colors_hex_false"):
                        got = U.get_fg_bg_colors()
                        exp = R.colors(p, True)
                    elif call == "name_version":
                        got, exp = U.get_terminal_name_version(), R.name_version(p, environ, True)
                    elif call == "cell_size":
                        got = U.get_cell_size()
                        got, exp = got and tuple(got), R.cell_size(p, c["win"], c["swap"], environ, True)
                    elif call == "kitty":
                        got, exp = I.KittyImage.is_supported(), R.kitty_supported(p, environ, True)
                    elif call == "iterm2":
                        got, exp = I.ITerm2Image.is_supported(), R.iterm2_supported(p, environ, True)
                    else:
                        got, exp = I.auto_image_class().__name__, R.auto_class(p, environ, True)
                    took = _time.monotonic() - t0
                    if got != exp:
                        if took > 1.5:
                            raise HarnessError(f"real-time query took {took:.2f}s (inconclusive)")
                        raise Violation(f"[real time] {call} returned {got!r}, the terminal said {exp!r} (profile {p})",
                                        {"kind": "wrong_result_realtime", "call": call})
                _time.sleep(0.05)
        finally:
            for k, v in saved_env.items():
                os.environ.pop(k, None)
                if v is not None:
                    os.environ[k] = v
        T._handle_requests()
        T._deliver_due(float("inf"))
        left = T.unread_bytes()
        if left:
            raise Violation(f"[real time] reply bytes left unread on the terminal: {left!r} (profile {p}, calls {c['calls']})",
                            {"kind": "unread_realtime"})
    finally:
        U.select, U.monotonic = saved
    rec.label("realtime")
    rec.nontriv([c["calls"], [d > 0 for d in c["profile"]["delays"]]])


CLAUSES = [
    Clause("queries", check_queries, cases, budget={"quick": 2500, "thorough": 100000},
           floors={"delayed": 0.3, "mixed_widths": 0.1, "disabled": 0.05}),
    Clause("realtime", check_realtime, rt_cases, budget={"quick": 48, "thorough": 600}, min_per_shard=6),
]
