"""C06 — draw() leaves the picture in place and the cursor on the line below it."""

from __future__ import annotations

import io
import os
import pty
import sys
import time

from hypothesis import strategies as st

from .. import gen, iterlab
from ..core import Clause, Violation
from ..faults import Proxy
from ..ref import padding as RP

META = {
    "thorough_scale": 3,
    "level": "exploration",
    "rule": (
        "Generated draws in both APIs (new: instrumented glyph-grid renderables, still / 2-5 frames / INDEFINITE "
        "stream of 0-4 frames, loops 1-3, cache settings, exact/aligned/relative paddings, check_size, allow_scroll, "
        "hide_cursor, echo_input; old: Block/Kitty/ITerm2 images, still and animated GIF/APNG/WEBP, repeat 1-3, "
        "alignment/padding parameters, scroll, check_size, style args, every quirk identity) on generated terminal "
        "sizes and initial cursor rows (incl. rows that force scrolling), stdout a TTY or not. The captured output "
        "is executed on the vf.vt terminal model pre-filled with distinguishable sentinel rows; at every flush and "
        "at the end the padded region must be where the first frame was drawn, all other cells unchanged (modulo "
        "unavoidable scrolling), cursor visible at column 0 of the line below the region, attributes reset; the "
        "documented size-validation rules are applied by a reference and must be matched exactly with zero bytes "
        "written on rejection. Non-trivial = animation with >= 2 frames, or padding with a bottom/right part, or "
        "forced scrolling; distinct by (api, style, frames, loops, pad pattern, scroll>0, tty)."
    ),
    "assumptions": [
        "stdout is captured in memory by a stream object whose isatty()/fileno() refer to a real pty; the kernel's "
        "default output processing (ONLCR) is applied by the model (cross-checked by clause pty on a real pty)",
        "for an INDEFINITE source that ends before its first frame only the restoration part is asserted",
    ],
}

env = I = P = H = RR = CM = None
PTY_SLAVE = -1


def setup():
    global env, I, P, H, RR, CM, PTY_SLAVE
    from .. import env as _env, hren

    _env.install()
    import term_image.image as _I
    import term_image.image.common as _CM
    import term_image.padding as _P
    import term_image.render  # noqa
    import term_image.renderable._renderable as _RR

    env, I, P, RR, CM = _env, _I, _P, _RR, _CM
    RR.sleep = lambda *_: None
    CM.time = Proxy(time, {"sleep": lambda *_: None})
    H = hren.classes()
    _m, PTY_SLAVE = pty.openpty()
    # kitty.py / iterm2.py bind `sys.stdout.write` at import time for their clear() commands; in a real
    # program that is the terminal. Route it to whatever the harness has installed as sys.stdout.
    import term_image.image.iterm2 as IM
    import term_image.image.kitty as KM

    KM._stdout_write = IM._stdout_write = lambda s: sys.stdout.write(s)


class Cap:
    """In-memory stdout with tty-ness; records writes and flush points."""

    def __init__(self, tty):
        self._tty = tty
        self.events = []
        self.encoding = "utf-8"

    def isatty(self):
        return self._tty

    def fileno(self):
        if not self._tty:
            raise io.UnsupportedOperation("fileno")
        return PTY_SLAVE

    def write(self, s):
        self.events.append(("w", s))
        return len(s)

    def flush(self):
        self.events.append(("f",))

    def text(self):
        return "".join(e[1] for e in self.events if e[0] == "w")


def sentinel_row(r):
    return chr(97 + r % 26)


# ---------------------------------------------------------------------------------------- generation

@st.composite
def new_cases(draw):
    kind = draw(st.sampled_from(["still", "grid", "grid", "stream"]))
    c = {
        "api": "new", "kind": kind,
        "n": 1 if kind == "still" else draw(st.integers(0, 4)) if kind == "stream" else draw(st.integers(2, 5)),
        "w": draw(st.integers(1, 8)), "h": draw(st.integers(1, 5)),
        "loops": draw(st.sampled_from([1, 1, 2, 3])), "cache": draw(st.sampled_from([False, True, 100, 2])),
        "pad": draw(iterlab.pad_spec()), "fill": draw(st.sampled_from([" ", " ", "#", ""])),
        "default_pad": draw(st.integers(0, 4)) == 0,
        "check_size": draw(st.booleans()), "allow_scroll": draw(st.booleans()),
        "hide_cursor": draw(st.booleans()), "echo_input": draw(st.booleans()),
        "animate": draw(st.integers(0, 5)) != 0, "tty": draw(st.integers(0, 3)) != 0,
        "cols": draw(st.integers(1, 24)), "rows": draw(st.integers(2, 16)),
        "r0f": draw(st.sampled_from([0.0, 0.0, 0.3, 0.8, 1.0, 1.0])),
    }
    return c


@st.composite
def old_cases(draw):
    animated = draw(st.booleans())
    style = draw(st.sampled_from(["block", "block", "kitty", "iterm2"]))
    if animated:
        img = draw(gen.anim_image(max_frames=4, max_w=5, max_h=5))
        src = {"kind": draw(st.sampled_from(["anim_file", "anim_pil"])), "image": img}
    else:
        src = {"kind": draw(st.sampled_from(["pil", "file"])), "image": draw(gen.still_image(max_w=6, max_h=6))}
    ident = draw(gen.identity())
    if draw(st.integers(0, 3)) != 0:  # favour the identities whose quirks the style reacts to
        rel = {"kitty": [["kitty", "0.20.0"], ["kitty", "0.25.0"], ["kitty", "0.25.1"], ["kitty", "0.25.2"], ["kitty", "0.26.5"],
                         ["konsole", "22.04.0"]],
               "iterm2": [["wezterm", "20230712"], ["konsole", "22.04.0"], ["iterm2", "3.4.19"]],
               "block": [["kitty", "0.26.5"], ["", ""]]}[style]
        ident = draw(st.sampled_from(rel))
    c = {
        "api": "old", "style": style, "source": src, "ident": ident,
        "prior_size": draw(st.one_of(st.none(), st.tuples(st.integers(1, 10), st.integers(1, 6)).map(list))),
        "cell": [draw(st.integers(1, 4)), draw(st.integers(1, 6))],
        "size": draw(st.one_of(st.tuples(st.just("manual"), st.integers(1, 10), st.integers(1, 6)).map(list),
                               st.tuples(st.just("dynamic"), st.sampled_from(["FIT", "AUTO", "ORIGINAL"])).map(list))),
        "h_align": draw(st.sampled_from([None, "<", "|", ">", "left", "center", "right"])),
        "v_align": draw(st.sampled_from([None, "^", "-", "_", "top", "middle", "bottom"])),
        "pad_width": draw(st.one_of(st.just(0), st.integers(-3, 26))),
        "pad_height": draw(st.one_of(st.just(-2), st.integers(-3, 18), st.integers(1, 4))),  # incl. heights below the image's
        "alpha": draw(gen.alpha_setting()),
        "scroll": draw(st.booleans()), "check_size": draw(st.booleans()),
        "animate": draw(st.integers(0, 5)) != 0, "repeat": draw(st.sampled_from([1, 1, 2, 3])),
        "cached": draw(st.sampled_from([False, True, 100, 2])),
        "tty": draw(st.integers(0, 3)) != 0,
        "cols": draw(st.integers(1, 24)), "rows": draw(st.integers(2, 16)),
        "r0f": draw(st.sampled_from([0.0, 0.0, 0.3, 0.8, 1.0, 1.0])),
        "bg": draw(st.one_of(st.none(), gen.rgb)),
        # file sources: the same call was attempted before while the file was missing and the terminal had another size
        "failed_first": draw(st.booleans()),
        # who detects the terminal: the harness presets the detected state (None), or the library detects it itself on
        # first use -- through the style class, or through a user subclass of it that is instantiated first
        "detect": draw(st.sampled_from([None, None, "base", "subclass", "subclass"])),
    }
    if style == "kitty":
        c["style_args"] = draw(gen.kitty_style(allow_blend=False))
    elif style == "iterm2":
        c["style_args"] = draw(gen.iterm2_style())
    else:
        c["style_args"] = {}
    return c


# ---------------------------------------------------------------------------------------- oracle

ANIM_Z = -(1 << 31)  # the z-index all kitty-style animations draw their frames on


def run_screen(cap: Cap, cols, rows, r0, profile, region, what, frame_check=None, old_kitty_anim=False):
    """Replays the captured stream on the model, checking the 'outside unchanged' invariant at every
    flush; returns the final screen.  region = (Wp, Hp)."""
    from ..vt import Placement, Screen

    Wp, Hp = region
    scr = Screen(cols, rows, profile=profile)
    for y in range(rows):
        scr.grid[y] = [(sentinel_row(y), None, None, frozenset(), None)] * cols
    scr.y = r0
    needed = max(0, r0 + Hp - (rows - 1))
    # pictures that were on the screen before the call, outside the padded region (terminals with persistent
    # placements only): the last frame of an earlier animation (same z-index as any animation) and an ordinary one
    sentinels = []
    if profile in ("kitty", "konsole") and Wp <= cols and Hp + 1 <= rows:
        spots = [(cols - 1, y) for y in range(rows) if Wp < cols] + [(0, y) for y in range(rows) if not r0 <= y < r0 + Hp]
        spots = [(x, y) for x, y in spots if not (r0 <= y < r0 + Hp and x < Wp)]
        for z, (x, y) in zip((ANIM_Z, 7), spots[:: max(1, len(spots) // 2)] if spots else []):
            pl = Placement("kitty", x, y, 1, 1, z, 0x5E47, {"sentinel": True, "y0": y})
            scr.placements.append(pl)
            sentinels.append(pl)

    def sentinels_ok(when):
        for pl in sentinels:
            if pl.meta["y0"] - scr.scrolls < 0:
                continue  # scrolled off the top
            if pl.z == ANIM_Z and old_kitty_anim:
                continue  # documented: on kitty <= 0.25.0 frames of earlier animations are cleared as well
            if not any(q is pl for q in scr.placements):
                raise Violation(f"{what}: a picture (z-index {pl.z}) that was on the screen at {(pl.x, pl.meta['y0'])}, outside "
                                f"the padded region {Wp}x{Hp}@row {r0}, before the call is gone ({when})",
                                {"clause": "outside_image", "anim_z": pl.z == ANIM_Z})

    def outside_ok(when):
        s = scr.scrolls
        top = r0 - s
        for y in range(rows):
            for x in range(cols):
                if top <= y < top + Hp and x < Wp:
                    continue
                ch = scr.grid[y][x]
                orig = y + s
                if orig < rows:
                    ok = ch == (sentinel_row(orig), None, None, frozenset(), None)
                else:  # a line scrolled in at the bottom: blank, untouched
                    ok = ch[0] == " " and ch[1:] == (None, None, frozenset(), None)
                if not ok:
                    raise Violation(f"{what}: cell {(x, y)} outside the padded region {Wp}x{Hp}@row {top} changed to {ch} "
                                    f"({when}; scrolled {s})", {"clause": "outside"})
        sentinels_ok(when)
        for p in scr.placements:
            if p.meta.get("sentinel"):
                continue
            if not (top <= p.y and p.y + p.r <= top + Hp and p.x + p.c <= Wp):
                raise Violation(f"{what}: graphics placement {(p.x, p.y, p.c, p.r)} outside the padded region "
                                f"{Wp}x{Hp}@row {top} ({when})", {"clause": "outside"})

    nflush = 0
    for ev in cap.events:
        if ev[0] == "w":
            scr.feed(ev[1], onlcr=True)
        else:
            nflush += 1
            if scr.in_ground() and Wp <= cols and Hp + 1 <= rows:
                outside_ok(f"at flush #{nflush}")
                if frame_check:
                    frame_check(scr, r0 - scr.scrolls, f"at flush #{nflush}")
    if Hp <= rows and scr.scrolls > needed:  # a region taller than the terminal cannot stay in place
        raise Violation(f"{what}: scrolled {scr.scrolls} lines, only {needed} necessary (r0={r0}, Hp={Hp}, rows={rows})", {"clause": "scroll"})
    return scr, outside_ok


def final_checks(scr, cap, c, what, Hp, r0, tty, drew=True):
    from ..vt import DEFAULT_SGR

    bad = [e for e in scr.events if e[0] not in ("stray_st", "kitty_series_closed_empty", "autowrap")]
    if bad or not scr.in_ground():
        raise Violation(f"{what}: control-sequence anomalies {bad[:3]} / parser state {scr.parser_state()}", {"clause": "sequences"})
    if not scr.cursor_visible:
        raise Violation(f"{what}: cursor left hidden", {"clause": "cursor_visible"})
    if scr.sgr != DEFAULT_SGR:
        raise Violation(f"{what}: text attributes not reset: {scr.sgr}", {"clause": "sgr"})
    if scr.sync_depth:
        raise Violation(f"{what}: synchronized update left open", {"clause": "sync"})
    if drew and Hp > scr.rows:
        # a region taller than the terminal cannot stay in place: only the column is asserted
        if scr.x != 0:
            raise Violation(f"{what}: cursor ends at column {scr.x}", {"clause": "final_cursor"})
    elif drew:
        ey = r0 - scr.scrolls + Hp
        if (scr.x, scr.y) != (0, ey):
            raise Violation(f"{what}: cursor ends at {(scr.x, scr.y)}, expected column 0 of the line below the region "
                            f"= {(0, ey)} (r0={r0}, Hp={Hp}, scrolled {scr.scrolls}, rows={scr.rows})",
                            {"clause": "final_cursor", "api": c["api"], "animated": bool(c.get("_animation"))})


def compare_region(scr, c, what, bare, sides, W, Hh, fill, profile, r0):
    """Final padded region == bare render placed at the reference offset."""
    from ..vt import Screen, anchor

    left, top, right, bottom = sides
    Wp, Hp = left + W + right, top + Hh + bottom
    y0 = r0 - scr.scrolls
    B = Screen(scr.cols, scr.rows, profile=profile)
    B.fill("~")
    B.feed(f"\x1b[{y0 + top + 1};{left + 1}H")
    B.feed(anchor(bare, left), onlcr=True)
    for y in range(y0, y0 + Hp):
        for x in range(Wp):
            in_rect = y0 + top <= y < y0 + top + Hh and left <= x < left + W
            a = scr.grid[y][x]
            if in_rect:
                if a != B.grid[y][x]:
                    raise Violation(f"{what}: final picture cell {(x - left, y - y0 - top)} is {a}, expected {B.grid[y][x]} "
                                    f"(last frame at offset {(left, top)} of the padded region)", {"clause": "picture"})
            elif fill == "":
                if a != (sentinel_row(y + scr.scrolls), None, None, frozenset(), None) and a[0] != " ":
                    raise Violation(f"{what}: padding cell {(x, y)} modified although fill is empty: {a}", {"clause": "padding"})
            elif a != (fill, None, None, frozenset(), None):
                raise Violation(f"{what}: padding cell {(x, y - y0)} is {a}, expected fill {fill!r}", {"clause": "padding"})
    pa = sorted((p.x, p.y, p.c, p.r) for p in scr.placements)
    pb = sorted((p.x, p.y, p.c, p.r) for p in B.placements)
    if pa != pb and profile != "other":
        # on terminals where images are cell content (profile other/iterm2/wezterm) this is covered by cells
        pass
    return pa, pb


# ---------------------------------------------------------------------------------------- new API

def check_new(c, rec):
    from term_image.renderable import RenderSizeOutofRangeError

    env.reset()
    H["forget"]()
    cols, rows = c["cols"], c["rows"]
    env.apply(cols=cols, rows=rows)
    kind = c["kind"]
    if kind == "still":
        r = H["new"]("grid", c["w"], c["h"])
    elif kind == "stream":
        r = H["new"]("stream", c["w"], c["h"], c["n"], 1)
    else:
        r = H["new"]("grid", c["w"], c["h"], c["n"], 1)
    animation = kind != "still" and c["animate"]
    c["_animation"] = animation
    W, Hh = c["w"], c["h"]
    if c["default_pad"]:
        spec, fill = ["aligned", 0, -2, 1, 1], " "
        kwargs = {}
    else:
        spec, fill = c["pad"], c["fill"]
        kwargs = {"padding": (P.AlignedPadding(spec[1], spec[2], P.HAlign(spec[3]), P.VAlign(spec[4]), fill)
                              if spec[0] == "aligned" else P.ExactPadding(*spec[1:5], fill))}
    if spec[0] == "aligned":
        sides = RP.aligned((W, Hh), (RP.resolve(spec[1], cols), RP.resolve(spec[2], rows)), spec[3], spec[4])
    else:
        sides = tuple(spec[1:5])
    left, top, right, bottom = sides
    Wp, Hp = left + W + right, top + Hh + bottom
    check = animation or c["check_size"]
    allow_scroll = (not animation) and c["allow_scroll"]
    reject = check and (Wp > cols or (not allow_scroll and Hp > rows))
    r0 = min(rows - 1, int(c["r0f"] * (rows - 1)))
    what = (f"new-API draw {kind} n={c['n']} {W}x{Hh} pad={spec} fill={fill!r} loops={c['loops']} cache={c['cache']} "
            f"animate={c['animate']} check_size={c['check_size']} allow_scroll={c['allow_scroll']} term={cols}x{rows} r0={r0} tty={c['tty']}")
    cap = Cap(c["tty"])
    real = sys.stdout
    sys.stdout = cap
    err = None
    try:
        r.draw(None, animate=c["animate"], loops=c["loops"], cache=c["cache"], check_size=c["check_size"],
               allow_scroll=c["allow_scroll"], hide_cursor=c["hide_cursor"], echo_input=c["echo_input"], **kwargs)
    except Exception as e:
        err = e
    finally:
        sys.stdout = real
    rec.label("api:new", f"kind:{kind}", "rejected" if reject else "accepted", "tty" if c["tty"] else "notty")
    if reject:
        if not isinstance(err, RenderSizeOutofRangeError):
            raise Violation(f"{what}: padded size {Wp}x{Hp} does not fit but draw() "
                            f"{'raised ' + type(err).__name__ if err else 'drew it'}", {"clause": "validation"})
        if cap.text():
            raise Violation(f"{what}: rejected draw wrote {cap.text()!r}", {"clause": "validation_output"})
        rec.nontriv(["new", "rejected", Wp > cols, Hp > rows, animation])
        return
    if err is not None:
        raise Violation(f"{what}: raised {type(err).__name__}: {err} although the size rules accept it", {"clause": "validation"})
    if Wp > cols:
        rec.label("unchecked_overflow")
        return
    n_last = None
    if kind == "still":
        n_last = 0
    elif not animation:
        n_last = 0
    elif kind == "grid":
        n_last = c["n"] - 1
    elif c["n"] > 0:
        n_last = c["n"] - 1
    from ..hren import grid_text

    def frame_check(scr, y0, when):
        # inside the render rectangle every cell shows one and the same frame of the grid
        if n_last is None:
            return
        ch = scr.grid[y0 + top][left][0] if 0 <= y0 + top < scr.rows else None
        if ch is None or not ("A" <= ch <= "Z"):
            return  # first frame not drawn yet
        cands = [n for n in range(max(1, c["n"])) if grid_text(1, 1, n) == ch]
        for n in cands:
            lines = grid_text(W, Hh, n).split("\n")
            if all(scr.grid[y0 + top + j][left + i][0] == lines[j][i] for j in range(Hh) for i in range(W)):
                return
        raise Violation(f"{what}: {when} the render rectangle does not show one whole frame", {"clause": "frame_place"})

    tall = Hp + 1 > rows
    scr, outside_ok = run_screen(cap, cols, rows, r0, "other", (Wp, Hp), what, None if tall else frame_check)
    drew = n_last is not None
    if not drew:
        # INDEFINITE source that ended before its first frame: restoration only
        final_checks(scr, cap, c, what, Hp, r0, c["tty"], drew=False)
        if scr.x != 0:
            raise Violation(f"{what}: cursor not at column 0", {"clause": "final_cursor"})
        rec.nontriv(["new", "empty_stream"])
        return
    final_checks(scr, cap, c, what, Hp, r0, c["tty"])
    if not tall:
        outside_ok("at the end")
        compare_region(scr, c, what, grid_text(W, Hh, n_last), sides, W, Hh, fill, "other", r0)
    else:
        rec.label("taller_than_terminal")
    if c["tty"] and c["hide_cursor"] and "\x1b[?25l" not in cap.text():
        raise Violation(f"{what}: hide_cursor requested on a TTY but the cursor was never hidden", {"clause": "hide_cursor"})
    if (not c["tty"] or not c["hide_cursor"]) and "\x1b[?25" in cap.text():
        raise Violation(f"{what}: cursor visibility sequences written although not requested / not a TTY", {"clause": "hide_cursor"})
    if (animation and c["n"] >= 2) or bottom or right or scr.scrolls:
        rec.nontriv(["new", kind, min(c["n"], 3), c["loops"], [int(s > 0) for s in sides], scr.scrolls > 0, c["tty"]])
    if scr.scrolls:
        rec.label("scrolled")
    if animation:
        rec.label("animation")


# ---------------------------------------------------------------------------------------- old API

def check_old(c, rec):
    from PIL import Image

    from term_image.exceptions import InvalidSizeError

    from ..ref.fmtspec import resolve_pad

    env.reset()
    cols, rows = c["cols"], c["rows"]
    detect = c.get("detect") if c["style"] != "block" else None
    env.apply(detect=bool(detect), cols=cols, rows=rows, cell=c["cell"], name=c["ident"][0], version=c["ident"][1], bg=c["bg"])
    cls = {"block": I.BlockImage, "kitty": I.KittyImage, "iterm2": I.ITerm2Image}[c["style"]]
    if detect:
        rec.label(f"detect:{detect}")
        if detect == "subclass":
            first = type(cls)("Sub" + cls.__name__, (cls,), {})(Image.new("RGB", (1, 1)))
            first.close()
    src = c["source"]
    pil = None
    if src["kind"] == "pil":
        pil = gen.build_image(src["image"])
        image = cls(pil)
    elif src["kind"] == "file":
        image = cls.from_file(gen.still_file(src["image"]))
    elif src["kind"] == "anim_file":
        image = cls.from_file(gen.anim_file(src["image"]))
    else:
        pil = Image.open(gen.anim_file(src["image"]))
        image = cls(pil)
    try:
        _check_old(c, rec, image, cls, InvalidSizeError, resolve_pad)
    finally:
        image.close()
        if pil is not None:
            pil.close()


def _check_old(c, rec, image, cls, InvalidSizeError, resolve_pad):
    cols, rows = c["cols"], c["rows"]
    sz = c["size"]
    dynamic = sz[0] == "dynamic"
    if dynamic:
        image.size = I.Size[sz[1]]
    else:
        image.set_size(sz[1], sz[2])
    animated_src = "n" in c["source"]["image"]
    animation = animated_src and c["animate"]
    c["_animation"] = animation
    W, Hh = image.rendered_size
    pw_raw, ph_raw = c["pad_width"], c["pad_height"]
    pw, ph = resolve_pad(pw_raw or None if pw_raw == 0 else pw_raw, None if ph_raw == -2 else ph_raw, cols, rows)
    pw = pw_raw if pw_raw > 0 else max(cols + pw_raw, 1)
    ph = ph_raw if ph_raw > 0 else max(rows + ph_raw, 1)
    hmap = {"left": "<", "center": "|", "right": ">"}
    vmap = {"top": "^", "middle": "-", "bottom": "_"}
    ha = hmap.get(c["h_align"], c["h_align"])
    va = vmap.get(c["v_align"], c["v_align"])
    sides = RP.aligned((W, Hh), (pw, ph), RP.H_CHARS[ha], RP.V_CHARS[va])
    left, top, right, bottom = sides
    Wp, Hp = left + W + right, top + Hh + bottom
    # documented validation rules
    reject = None
    if pw_raw > cols:
        reject = ValueError
    elif animation and ph_raw > rows:
        reject = ValueError
    elif not dynamic and (c["check_size"] or animation):
        if W > cols or (Hh > rows and not (c["scroll"] and not animation)):
            reject = InvalidSizeError
    r0 = min(rows - 1, int(c["r0f"] * (rows - 1)))
    sa = {k: v for k, v in c["style_args"].items() if not (k == "method" and v is None)}
    what = (f"old-API draw {c['style']} {'anim' if animated_src else 'still'}({c['source']['kind']}) size={sz}->{W}x{Hh} "
            f"h_align={c['h_align']!r} pad_width={pw_raw} v_align={c['v_align']!r} pad_height={ph_raw} alpha={c['alpha']!r} "
            f"scroll={c['scroll']} check_size={c['check_size']} animate={c['animate']} repeat={c['repeat']} cached={c['cached']} "
            f"style={sa} ident={c['ident']} term={cols}x{rows} r0={r0} tty={c['tty']}")
    if c.get("prior_size") and sz[0] == "manual":
        # the same instance was formatted before, at another size, with the same padding parameters
        try:
            image.set_size(*c["prior_size"])
            format(image, (str(pw_raw) if pw_raw > 0 else "") + ("." + str(ph_raw) if ph_raw > 0 else ""))
        except Exception:
            pass
        image.set_size(sz[1], sz[2])
        what += f" (same instance formatted before at {c['prior_size']})"
        rec.label("prior_size")
    if c.get("failed_first") and c["source"]["kind"] in ("file", "anim_file"):
        import os

        path = image.source
        setting = image.size
        env.apply(cols=cols + 9, rows=rows + 7)
        os.rename(path, path + ".away")
        real = sys.stdout
        sys.stdout = Cap(c["tty"])
        failed = None
        try:
            image.draw(c["h_align"], pw_raw, c["v_align"], ph_raw, c["alpha"], animate=c["animate"], repeat=c["repeat"],
                       cached=c["cached"], scroll=c["scroll"], check_size=c["check_size"], **sa)
        except Exception as e:
            failed = e
        finally:
            sys.stdout = real
            os.rename(path + ".away", path)
            env.apply(cols=cols, rows=rows)
        if failed is None:
            raise Violation(f"{what}: draw() of an image whose source file is missing did not fail", {"clause": "missing_file"})
        if image.size != setting or (isinstance(setting, I.Size) and image.size is not setting):
            raise Violation(f"{what}: a draw() that failed with {type(failed).__name__} (source file missing, terminal "
                            f"{cols + 9}x{rows + 7}) changed the size setting {setting!r} -> {image.size!r}", {"clause": "size_setting"})
        what += f" (after a draw that failed with {type(failed).__name__})"
        rec.label("after_failed_draw")
    size_before = image.size
    tell_before = image.tell()
    cap = Cap(c["tty"])
    real = sys.stdout
    sys.stdout = cap
    err = None
    try:
        image.draw(c["h_align"], pw_raw, c["v_align"], ph_raw, c["alpha"], animate=c["animate"], repeat=c["repeat"],
                   cached=c["cached"], scroll=c["scroll"], check_size=c["check_size"], **sa)
    except Exception as e:
        err = e
    finally:
        sys.stdout = real
    rec.label("api:old", f"style:{c['style']}", "rejected" if reject else "accepted", "tty" if c["tty"] else "notty")
    if image.size != size_before or (isinstance(size_before, I.Size) and image.size is not size_before):
        raise Violation(f"{what}: draw() changed the size setting {size_before!r} -> {image.size!r}", {"clause": "size_setting"})
    if image.tell() != tell_before:
        raise Violation(f"{what}: draw() moved the current frame {tell_before} -> {image.tell()}", {"clause": "tell"})
    if reject:
        if not isinstance(err, reject):
            raise Violation(f"{what}: the documented rules reject this (expected {reject.__name__}) but draw() "
                            f"{'raised ' + type(err).__name__ + ': ' + str(err) if err else 'drew it'}", {"clause": "validation"})
        if cap.text():
            raise Violation(f"{what}: rejected draw wrote {cap.text()[:60]!r}", {"clause": "validation_output"})
        rec.nontriv(["old", "rejected", reject.__name__, animation, dynamic])
        return
    if err is not None:
        raise Violation(f"{what}: raised {type(err).__name__}: {err} although the documented rules accept it", {"clause": "validation"})
    if Wp > cols:
        rec.label("unchecked_overflow")
        return
    profile = env.model_profile()
    tall = Hp + 1 > rows
    ident = tuple(c["ident"])
    try:
        vt_ = tuple(map(int, ident[1].split(".")))
    except ValueError:
        vt_ = ()
    old_kitty_anim = bool(animation and c["style"] == "kitty" and ident[0] == "kitty" and vt_ and vt_ <= (0, 25, 0))
    scr, outside_ok = run_screen(cap, cols, rows, r0, profile, (Wp, Hp), what, old_kitty_anim=old_kitty_anim)
    final_checks(scr, cap, c, what, Hp, r0, c["tty"])
    if not tall:
        outside_ok("at the end")
        if c["style"] == "block":
            twin = cls(image._get_image()) if False else None
            n_frames = c["source"]["image"].get("n", 1)
            if animation:
                image.seek(n_frames - 1)
            bare = image._renderer(image._render_image, c["alpha"])
            if animation:
                image.seek(tell_before)
            compare_region(scr, c, what, bare, sides, W, Hh, " ", profile, r0)
        else:
            # graphics: the render rectangle is covered by image(s), padding is blank
            y0 = r0 - scr.scrolls
            for y in range(y0, y0 + Hp):
                for x in range(Wp):
                    in_rect = y0 + top <= y < y0 + top + Hh and left <= x < left + W
                    if in_rect and not scr.covered_by_graphics(x, y):
                        raise Violation(f"{what}: cell {(x, y)} of the final picture is not covered by an image", {"clause": "picture"})
                    if not in_rect and scr.grid[y][x] != (" ", None, None, frozenset(), None):
                        raise Violation(f"{what}: padding cell {(x, y)} is {scr.grid[y][x]}", {"clause": "padding"})
                    if not in_rect and any(p.covers(x, y) for p in scr.placements if not p.meta.get("sentinel")):
                        raise Violation(f"{what}: a graphics placement covers padding cell {(x, y)}", {"clause": "padding"})
            # only the last frame may be on screen: no earlier frame left underneath it
            stacked = {}
            for p in scr.placements:
                if not p.meta.get("sentinel"):
                    stacked.setdefault((p.x, p.y, p.c, p.r), []).append(p.z)
            for rect, zs in stacked.items():
                # judged only on the terminals the style supports (kitty, konsole); elsewhere
                # (forced support on an unknown terminal) frame-clearing behaviour is unspecified
                if len(zs) > 1 and profile in ("kitty", "konsole") and cls._supported:
                    raise Violation(f"{what}: {len(zs)} graphics placements are stacked at {rect} after the draw "
                                    f"(earlier frames were not removed)", {"clause": "stacked_frames"})
    else:
        rec.label("taller_than_terminal")
    if (animation and c["source"]["image"].get("n", 1) >= 2) or bottom or right or scr.scrolls:
        rec.nontriv(["old", c["style"], animation, c["repeat"], [int(s > 0) for s in sides], scr.scrolls > 0, c["tty"], profile])
    if scr.scrolls:
        rec.label("scrolled")
    if animation:
        rec.label("animation")


# ---------------------------------------------------------------------------------------- real pty cross-check

@st.composite
def pty_cases(draw):
    c = draw(new_cases())
    c["tty"] = True
    c["cols"], c["rows"] = max(c["cols"], 12), max(c["rows"], 10)
    return c


def check_pty(c, rec):
    """The same new-API draw through a real pty: bytes read from the master must equal the in-memory
    capture with the kernel's ONLCR applied."""
    import threading

    env.reset()
    H["forget"]()
    env.apply(cols=c["cols"], rows=c["rows"])

    def build():
        if c["kind"] == "still":
            return H["new"]("grid", c["w"], c["h"])
        if c["kind"] == "stream":
            return H["new"]("stream", c["w"], c["h"], c["n"], 1)
        return H["new"]("grid", c["w"], c["h"], c["n"], 1)

    kw = dict(animate=c["animate"], loops=c["loops"], cache=c["cache"], check_size=False, allow_scroll=True,
              hide_cursor=c["hide_cursor"], echo_input=c["echo_input"])
    cap = Cap(True)
    real = sys.stdout
    sys.stdout = cap
    try:
        build().draw(None, **kw)
    finally:
        sys.stdout = real
    master, slave = pty.openpty()
    chunks = []
    stop = threading.Event()

    def reader():
        while True:
            try:
                d = os.read(master, 65536)
            except OSError:
                break
            if not d:
                break
            chunks.append(d)
            if b"\x00END\x00" in b"".join(chunks[-2:]):
                break

    t = threading.Thread(target=reader, daemon=True)
    t.start()
    stream = io.TextIOWrapper(os.fdopen(os.dup(slave), "wb", buffering=0), write_through=True, encoding="utf-8", newline="\n")
    sys.stdout = stream
    try:
        build().draw(None, **kw)
    finally:
        sys.stdout = real
    os.write(slave, b"\x00END\x00")
    t.join(10)
    alive = t.is_alive()
    stream.close()
    os.close(slave)
    os.close(master)
    if alive:
        from ..core import HarnessError

        raise HarnessError("pty reader did not finish (inconclusive)")
    got = b"".join(chunks).split(b"\x00END\x00")[0]
    exp = cap.text().replace("\n", "\r\n").encode()
    if got != exp:
        raise Violation(f"bytes on the pty master differ from the captured stream with ONLCR applied: {got[:80]!r} vs {exp[:80]!r}",
                        {"clause": "pty_equivalence"})
    rec.label("pty")
    rec.nontriv([c["kind"], c["n"], c["loops"], len(got) > 100])


CLAUSES = [
    Clause("new_api", check_new, new_cases, budget={"quick": 1500, "thorough": 40000},
           floors={"rejected": 0.05, "animation": 0.2, "scrolled": 0.03, "tty": 0.4}),
    Clause("old_api", check_old, old_cases, budget={"quick": 2400, "thorough": 30000},
           floors={"rejected": 0.05, "animation": 0.1, "scrolled": 0.02, "style:kitty": 0.1, "style:iterm2": 0.1}),
    Clause("pty", check_pty, pty_cases, budget={"quick": 60, "thorough": 600}, min_per_shard=10),
]
