"""C15 — cached terminal facts never outlive the condition they were computed under."""

from __future__ import annotations

import threading

from hypothesis import strategies as st

from ..core import Clause, Violation
from ..ref import queries as R

META = {
    "thorough_scale": 4,
    "level": "exploration",
    "rule": (
        "SimTTY histories over resize(cols,rows,xpix,ypix) via TIOCSWINSZ, enable/disable_win_size_swap, "
        "enable/disable_queries, set_cell_ratio(FIXED|DYNAMIC|float|<=0), get_cell_size, get_cell_ratio, "
        "get_fg_bg_colors, get_terminal_name_version, change of what the simulated terminal reports, and calls of "
        "harness functions decorated with utils.cached / utils.terminal_size_cached whose bodies count executions. "
        "Model: the acceptable values of a read are the fresh computation for the current size and settings, plus "
        "the previously computed value when only things the documentation allows to go unnoticed changed (same "
        "size in cells, no toggle since). Clause concurrent: N threads released by a barrier make first calls of a "
        "cached function with generated argument tuples; each body must run exactly once per distinct tuple. "
        "Non-trivial = history with compute -> toggle -> recompute at unchanged terminal size, or disabled -> "
        "compute -> enabled -> compute; distinct by abstracted op-kind sequence."
    ),
    "assumptions": [
        "pixel-size / reported-value changes need only be noticed when the size in cells changes or a toggle happens",
        "AutoCellRatio.is_supported is decided at the first auto-mode request (documented as explicitly settable)",
    ],
}

T = U = TI = I = simtty = None


def setup():
    global T, U, TI, I, simtty
    from .. import simtty as _s

    simtty = _s
    T = simtty.install()
    import term_image
    import term_image.image as _I
    import term_image.utils as _U

    U, TI, I = _U, term_image, _I


def win_st():
    return st.tuples(st.integers(1, 60), st.integers(1, 30),
                     st.sampled_from([(0, 0), (0, 0), (600, 400), (1200, 900), (60, 30), (0, 400)])).map(
        lambda t: [t[0], t[1], t[2][0], t[2][1]])


def prof_st():
    return st.fixed_dictionaries({
        "fg": st.sampled_from([None, "rgb:ffff/0000/0000", "rgb:1111/2222/3333"]),
        "bg": st.sampled_from([None, "rgb:0000/0000/0000", "rgb:eeee/eeee/eeee"]),
        "xtversion": st.sampled_from([None, ["paren", "kitty", "0.26.5"], ["space", "konsole", "22.04.0"], ["paren", "foot", "1.2"]]),
        "winops14": st.sampled_from([None, [400, 600], [900, 1200], [30, 60]]),
        "winops16": st.sampled_from([None, None, [20, 10], [18, 9]]),
        "da1": st.sampled_from([True, True, True, False]),
    })


OPS = ["proc_start", "memo_ts_resize", "get_cell_interrupted",
       "resize", "resize_px", "swap_on", "swap_off", "q_on", "q_off", "q_on", "q_off", "get_nv", "get_colors", "on_kitty", "ratio_fixed", "ratio_dynamic", "ratio_float",
       "ratio_bad", "get_cell", "get_cell", "get_ratio", "get_colors", "get_nv", "profile", "memo_cached", "memo_ts", "memo_ts_other",
       "inval_cached", "inval_ts", "on_kitty"]


@st.composite
def op(draw):
    k = draw(st.sampled_from(OPS))
    o = {"op": k}
    if k == "resize":
        o["win"] = draw(win_st())
    elif k == "resize_px":
        o["px"] = draw(st.sampled_from([[0, 0], [600, 400], [1200, 900], [640, 480]]))
    elif k == "ratio_float":
        o["v"] = draw(st.sampled_from([0.5, 1.0, 0.33]))
    elif k == "ratio_bad":
        o["v"] = draw(st.sampled_from([0.0, -1.0]))
    elif k == "profile":
        o["profile"] = draw(prof_st())
    elif k == "memo_ts_resize":
        o["win"] = draw(win_st())
    elif k == "memo_cached":
        o["args"] = draw(st.sampled_from([[], [1], [2], [1, "a"], [1.0], [-1], [-2]]))
        o["kw"] = draw(st.sampled_from([{}, {"x": 1}, {"x": 2}]))
    return o


# (args, kwargs) pairs: equal hashes (hash(-1) == hash(-2), hash(0) == hash(2**61 - 1)), same keyword names with
# different values, positional vs keyword
CONFUSABLE = [
    [[[-1], {}], [[-2], {}]], [[[0], {}], [[2**61 - 1], {}]], [[[], {"x": 1}], [[], {"x": 2}]],
    [[[1], {"x": 1}], [[1], {"x": 2}]], [[[1], {}], [[], {"x": 1}]], [[[], {"x": 1}], [[], {"y": 1}]],
    [[[1, 2], {}], [[2, 1], {}]], [[["a"], {}], [[("a",)], {}]],
]

READS = ["get_cell", "get_colors", "get_nv", "on_kitty", "get_ratio"]


@st.composite
def segment(draw):
    """Either one op, or one of the patterns the property is about."""
    k = draw(st.integers(0, 11))
    if k <= 5:
        return [draw(op())]
    if k == 11:  # size-memoized functions: compute at A -> resize to B -> compute -> back at A -> compute (two functions)
        wa, wb = draw(win_st()), draw(win_st())
        f1, f2 = draw(st.sampled_from([("memo_ts", "memo_ts_other"), ("memo_ts_other", "memo_ts"), ("memo_ts", "memo_ts")]))
        return [{"op": "resize", "win": wa}, {"op": f1}, {"op": f2}, {"op": "resize", "win": wb}, {"op": f1}, {"op": f2},
                {"op": "resize", "win": wa}, {"op": f2}, {"op": f1}]
    if k == 10:  # two memoized calls whose argument tuples are distinct but easily confused by a sloppy cache key
        a, b = draw(st.sampled_from(CONFUSABLE))
        return [{"op": "memo_cached", "args": a[0], "kw": a[1]}, {"op": "memo_cached", "args": b[0], "kw": b[1]}]
    x = {"op": draw(st.sampled_from(READS))}
    if k == 6:  # disabled -> compute -> enabled -> compute
        return [{"op": "q_off"}, x, {"op": "q_on"}, x]
    if k == 7:  # compute -> toggle -> recompute at unchanged terminal size
        t = draw(st.sampled_from(["swap_on", "swap_off", "q_off", "q_on"]))
        if draw(st.integers(0, 2)) == 0:  # ... with a process started in between (lock/cache migration)
            return [x, {"op": "proc_start"}, {"op": t}, x]
        return [x, {"op": t}, x]
    if k == 8:  # compute at A -> resize to B -> recompute -> back to A's size in cells with other pixel sizes -> recompute
        wa, wb = draw(win_st()), draw(win_st())
        if draw(st.booleans()):
            wb = wb[:2] + [0, 0]  # often a size at which the cell size cannot be determined without a query
        px = draw(st.sampled_from([[0, 0], [600, 400], [1200, 900], [640, 480], [60, 30]]))
        return [{"op": "resize", "win": wa}, x, {"op": "resize", "win": wb}, x, {"op": "resize", "win": wa[:2] + px}, x]
    return [{"op": "ratio_dynamic"}, {"op": "get_ratio"}, {"op": "resize", "win": draw(win_st())}, {"op": "get_ratio"}]


@st.composite
def cases(draw):
    segs = draw(st.lists(segment(), min_size=2, max_size=12))
    return {"win": draw(win_st()), "profile": draw(prof_st()), "ops": [o for s_ in segs for o in s_]}


_ORIG_LOCKS = {}


def reset_lib():
    # undo the lock / cell-size-cache migration done by a previous case's Process.start()
    if not _ORIG_LOCKS:
        _ORIG_LOCKS.update(tty=U._tty_lock, cs_lock=U._cell_size_lock)
    U._tty_lock = _ORIG_LOCKS["tty"]
    U._cell_size_lock = _ORIG_LOCKS["cs_lock"]
    U._cell_size_cache = [0] * 4
    U._queries_enabled = True
    U._swap_win_size = False
    U._query_timeout = 0.1
    U.get_fg_bg_colors._invalidate_cache()
    U.get_terminal_name_version._invalidate_cache()
    with U._cell_size_lock:
        U._cell_size_cache[:] = (0,) * 4
    TI._cell_ratio = 0.5
    TI.AutoCellRatio.is_supported = None
    inv = getattr(I.TextImage._is_on_kitty, "_invalidate_cache", None)
    if inv:
        inv()


def check_history(c, rec):
    reset_lib()
    win = list(c["win"])
    prof = dict(c["profile"], delays=[0.0])
    simtty.set_winsize(*win)
    T.reset(prof)
    enabled, swap = True, False
    epoch = 0  # increments on every documented invalidating toggle
    last_cell = None  # (value, cols, rows, epoch)
    last_colors = None  # (value, epoch_q)
    last_nv = None
    last_ok = None  # the identity-derived kitty workaround flag
    epoch_q = 0  # increments when queries get re-enabled
    ratio_mode = ("fixed", 0.5)
    auto_supported = None
    counts = {"cached": {}, "ts": 0}
    ts_last = None
    kinds = []
    flags = set()
    computed_since_toggle = False
    computed_while_disabled = False

    @U.cached
    def memo(*a, **k):
        key = (a, tuple(k.items()))
        counts["cached"][key] = counts["cached"].get(key, 0) + 1
        return ("v", a, tuple(k.items()), counts["cached"][key])

    resize_inside = []

    @U.terminal_size_cached
    def memo_ts():
        counts["ts"] += 1
        v = ("ts", tuple(U.get_terminal_size()), counts["ts"])
        if resize_inside:  # the terminal is resized while the memoized body runs
            simtty.set_winsize(*resize_inside.pop())
        return v

    # a second, unrelated function memoized per terminal size: has its own memo, sees every resize for itself
    ts2 = {"n": 0, "last": None}

    @U.terminal_size_cached
    def memo_ts_other():
        ts2["n"] += 1
        return ("ts_other", tuple(U.get_terminal_size()), ts2["n"])

    def fresh_cell():
        return R.cell_size(prof, win, swap, {}, enabled)

    def fail(msg, sig):
        raise Violation(f"{msg}\n  ops so far: {kinds}\n  win={win} swap={swap} enabled={enabled} profile={prof}", sig)

    _NOVAL = object()

    def read_cell(pre=_NOVAL):
        nonlocal last_cell
        got = U.get_cell_size() if pre is _NOVAL else pre
        got = got and tuple(got)
        ok = {fresh_cell()}
        if last_cell and last_cell[1:] == (win[0], win[1], epoch):
            ok.add(last_cell[0])
        if got not in ok:
            fail(f"get_cell_size() returned {got}, acceptable {ok}", {"kind": "stale_cell_size"})
        if not (last_cell and last_cell[1:] == (win[0], win[1], epoch) and got == last_cell[0]):
            last_cell = (got, win[0], win[1], epoch)
        T.flush_all()
        T.unread_bytes()
        return got

    def read_nv():
        nonlocal last_nv, computed_while_disabled
        got = U.get_terminal_name_version()
        T.flush_all()
        T.unread_bytes()
        ok = {R.name_version(prof, {}, enabled)}
        if last_nv and (last_nv[1] == epoch_q or last_nv[2]):
            ok.add(last_nv[0])
        if got not in ok:
            fail(f"get_terminal_name_version() returned {got}, acceptable {ok}", {"kind": "stale_identity"})
        if not (last_nv and (last_nv[1] == epoch_q or last_nv[2]) and got == last_nv[0]):
            last_nv = (got, epoch_q, enabled)  # must have been computed just now
        computed_while_disabled |= not enabled

    for o in c["ops"]:
        k = o["op"]
        kinds.append(k)
        try:
            if k == "resize":
                win = list(o["win"])
                simtty.set_winsize(*win)
            elif k == "resize_px":
                win[2:] = o["px"]
                simtty.set_winsize(*win)
            elif k == "swap_on":
                TI.enable_win_size_swap()
                if not swap:
                    epoch += 1
                    if computed_since_toggle:
                        flags.add("compute_toggle")
                    computed_since_toggle = False
                swap = True
            elif k == "swap_off":
                TI.disable_win_size_swap()
                if swap:
                    epoch += 1
                    if computed_since_toggle:
                        flags.add("compute_toggle")
                    computed_since_toggle = False
                swap = False
            elif k == "q_on":
                TI.enable_queries()
                if not enabled:
                    epoch += 1
                    epoch_q += 1
                    if computed_while_disabled:
                        flags.add("disabled_compute_enabled")
                    computed_while_disabled = False
                enabled = True
            elif k == "q_off":
                TI.disable_queries()
                enabled = False
            elif k == "profile":
                prof = dict(o["profile"], delays=[0.0])
                T.profile = prof
            elif k == "get_cell":
                read_cell()
                computed_since_toggle = True
                computed_while_disabled |= not enabled
            elif k in ("ratio_fixed", "ratio_dynamic"):
                mode = TI.AutoCellRatio.FIXED if k == "ratio_fixed" else TI.AutoCellRatio.DYNAMIC
                before = TI.get_cell_ratio() if ratio_mode[0] != "dynamic" else None
                try:
                    TI.set_cell_ratio(mode)
                    res = "ok"
                except TI.exceptions.TermImageError:
                    res = "unsupported"
                T.flush_all()
                T.unread_bytes()
                if auto_supported is None:
                    # decided now, from the cell size as the library could see it
                    cs_ok = {fresh_cell()}
                    if last_cell and last_cell[1:] == (win[0], win[1], epoch):
                        cs_ok.add(last_cell[0])
                    sup_ok = {v is not None for v in cs_ok}
                    actual = TI.AutoCellRatio.is_supported
                    if actual not in sup_ok:
                        fail(f"AutoCellRatio.is_supported == {actual}, cell size candidates {cs_ok}", {"kind": "auto_support"})
                    auto_supported = actual
                    if last_cell is None or last_cell[1:] != (win[0], win[1], epoch):
                        last_cell = (tuple(U.get_cell_size() or ()) or None, win[0], win[1], epoch)
                        T.flush_all()
                        T.unread_bytes()
                if (res == "ok") != bool(auto_supported):
                    fail(f"set_cell_ratio({mode.name}) -> {res} although auto cell ratio support is {auto_supported}", {"kind": "auto_mode"})
                if res == "unsupported":
                    if ratio_mode[0] != "dynamic" and TI.get_cell_ratio() != before:
                        fail("a rejected set_cell_ratio() changed the ratio", {"kind": "ratio_changed"})
                elif k == "ratio_fixed":
                    cs = read_cell()
                    got = TI._cell_ratio
                    cands = {fresh_cell()} | ({last_cell[0]} if last_cell else set())
                    okr = {(v[0] / v[1]) if v else 0.5 for v in cands}
                    if got not in okr:
                        fail(f"FIXED cell ratio snapshot {got} not in {okr}", {"kind": "fixed_ratio"})
                    ratio_mode = ("fixed", got)
                else:
                    ratio_mode = ("dynamic", None)
            elif k == "ratio_float":
                TI.set_cell_ratio(o["v"])
                ratio_mode = ("fixed", o["v"])
            elif k == "ratio_bad":
                before = TI._cell_ratio
                try:
                    TI.set_cell_ratio(o["v"])
                    fail(f"set_cell_ratio({o['v']}) accepted", {"kind": "ratio_validation"})
                except ValueError:
                    pass
                if TI._cell_ratio != before:
                    fail("a rejected set_cell_ratio() changed the ratio", {"kind": "ratio_changed"})
            elif k == "get_ratio":
                got = TI.get_cell_ratio()
                T.flush_all()
                T.unread_bytes()
                if ratio_mode[0] == "fixed":
                    if got != ratio_mode[1]:
                        fail(f"get_cell_ratio() == {got}, fixed ratio is {ratio_mode[1]}", {"kind": "fixed_ratio_moved"})
                else:
                    ok = {fresh_cell()}
                    if last_cell and last_cell[1:] == (win[0], win[1], epoch):
                        ok.add(last_cell[0])
                    okr = {(v[0] / v[1]) if v else 0.5 for v in ok}
                    if got not in okr:
                        fail(f"DYNAMIC get_cell_ratio() == {got}, acceptable {okr}", {"kind": "stale_dynamic_ratio"})
                    cs = U.get_cell_size()
                    last_cell = (cs and tuple(cs), win[0], win[1], epoch)
                    T.flush_all()
                    T.unread_bytes()
                    flags.add("dynamic_read")
            elif k == "get_colors":
                got = U.get_fg_bg_colors()
                T.flush_all()
                T.unread_bytes()
                ok = {R.colors(prof, enabled)}
                if last_colors and (last_colors[1] == epoch_q or last_colors[2]):
                    ok.add(last_colors[0])  # only results obtained while disabled must be discarded
                if got not in ok:
                    fail(f"get_fg_bg_colors() returned {got}, acceptable {ok}", {"kind": "stale_colors"})
                if not (last_colors and (last_colors[1] == epoch_q or last_colors[2]) and got == last_colors[0]):
                    last_colors = (got, epoch_q, enabled)  # must have been computed just now
                computed_while_disabled |= not enabled
            elif k == "get_nv":
                read_nv()
            elif k == "on_kitty":
                read_nv()
                got = I.TextImage._is_on_kitty()
                T.flush_all()
                T.unread_bytes()
                ok = {R.name_version(prof, {}, enabled)[0] == "kitty"}
                if last_nv and (last_nv[1] == epoch_q or last_nv[2]):
                    ok.add(last_nv[0][0] == "kitty")
                if last_ok and (last_ok[1] == epoch_q or last_ok[2]):
                    ok.add(last_ok[0])
                if got not in ok:
                    fail(f"the kitty-background workaround flag is {got}, acceptable {ok}: it was computed while "
                         f"queries were disabled and survived enable_queries()", {"kind": "stale_on_kitty"})
                if not (last_ok and (last_ok[1] == epoch_q or last_ok[2]) and got == last_ok[0]):
                    last_ok = (got, epoch_q, enabled)
                computed_while_disabled |= not enabled
            elif k == "get_cell_interrupted":
                # Ctrl-C (or any exception) while the cell-size query waits for its reply: the call fails - and must leave
                # nothing behind that a later call could mistake for a result
                T.raise_in_select = KeyboardInterrupt()
                try:
                    got = U.get_cell_size()
                except KeyboardInterrupt:
                    flags.add("query_interrupted")
                else:
                    T.raise_in_select = None
                    read_cell(got)  # no query was needed (ioctl / cache): an ordinary read
                T.raise_in_select = None
                T.flush_all()
                T.unread_bytes()
            elif k == "memo_cached":
                margs = [tuple(a) if isinstance(a, list) else a for a in o["args"]]  # (replay files hold lists)
                key = (tuple(margs), tuple(o["kw"].items()))
                before = counts["cached"].get(key, 0)
                v = memo(*margs, **o["kw"])
                flags.add("memo")
                after = counts["cached"].get(key, 0)
                if after > 1 or after - before > (1 if before == 0 else 0):
                    fail(f"memoized body ran {after} times for arguments {key}", {"kind": "memo_rerun"})
                if after == 0:
                    # first call with these arguments since this function was decorated / invalidated: nothing can be memoized
                    fail(f"memoized call with {key} did not run the body although these arguments were never computed "
                         f"for this function (got {v!r})", {"kind": "memo_foreign_value"})
                if v[1:3] != key:
                    fail(f"memoized call with {key} returned the value for {v[1:3]}", {"kind": "memo_wrong_value"})
            elif k == "inval_cached":
                memo._invalidate_cache()
                counts["cached"].clear()
            elif k == "memo_ts":
                before = counts["ts"]
                v = memo_ts()
                cur = (win[0], win[1])
                if v[1] != cur:
                    fail(f"terminal-size-memoized value {v} is for a different terminal size than {cur}", {"kind": "ts_stale"})
                if ts_last == cur and counts["ts"] != before:
                    fail("terminal_size_cached body re-ran although the terminal size did not change", {"kind": "ts_rerun"})
                if ts_last is not None and ts_last != cur and counts["ts"] == before:
                    # also when the terminal is back at a size seen earlier: whatever else changed with the resize
                    # (pixel size, ...) must be noticed, so the value of the earlier visit may not be served
                    fail(f"terminal_size_cached did not run its body after the terminal size changed {ts_last} -> {cur} "
                         f"(served the value memoized at an earlier visit of this size)", {"kind": "ts_not_rerun"})
                if counts["ts"] - before > 1:
                    fail("terminal_size_cached body ran more than once for one call", {"kind": "ts_rerun"})
                ts_last = cur
            elif k == "memo_ts_other":
                before = ts2["n"]
                v = memo_ts_other()
                cur = (win[0], win[1])
                if v[0] != "ts_other" or v[1] != cur:
                    fail(f"a second terminal-size-memoized function returned {v}, the terminal is {cur}", {"kind": "ts_stale", "other": True})
                if ts2["last"] == cur and ts2["n"] != before:
                    fail("a second terminal_size_cached function re-ran its body although the terminal size did not change",
                         {"kind": "ts_rerun", "other": True})
                if ts2["last"] != cur and ts2["n"] != before + 1:
                    fail(f"a second terminal_size_cached function ran its body {ts2['n'] - before}x after the terminal size changed "
                         f"{ts2['last']} -> {cur}", {"kind": "ts_not_rerun", "other": True})
                ts2["last"] = cur
                flags.add("two_ts_functions")
            elif k == "memo_ts_resize":
                # a resize lands while the body runs: the value belongs to the size before the call
                memo_ts._invalidate_terminal_size_cache()
                resize_inside.append(list(o["win"]))
                v = memo_ts()
                if v[1] != (win[0], win[1]):
                    fail(f"memoized body saw terminal size {v[1]}, expected {(win[0], win[1])}", {"kind": "ts_stale"})
                win = list(o["win"])
                ts_last = None if (v[1] != (win[0], win[1])) else (win[0], win[1])
                v2 = memo_ts()
                if v2[1] != (win[0], win[1]):
                    fail(f"after a resize during the memoized call, the next call returned the value computed for "
                         f"{v2[1]} although the terminal is {(win[0], win[1])}", {"kind": "ts_stale_after_inner_resize"})
                ts_last = (win[0], win[1])
                flags.add("resize_in_body")
            elif k == "proc_start":
                from multiprocessing import Process

                orig = U._process_start_wrapper.__wrapped__
                U._process_start_wrapper.__wrapped__ = lambda self, *a, **kw: None
                try:
                    Process(target=print).start()
                finally:
                    U._process_start_wrapper.__wrapped__ = orig
                flags.add("proc_start")
            elif k == "inval_ts":
                memo_ts._invalidate_terminal_size_cache()
                ts_last = None
        except Violation:
            raise
        except simtty.UnboundedWait as e:
            fail(f"{k}: {e}", {"kind": "unbounded_wait"})
        except Exception as e:
            fail(f"{k} raised {type(e).__name__}: {e}", {"kind": "exception", "op": k})
    rec.label(*sorted(flags) or ["plain"])
    if flags & {"compute_toggle", "disabled_compute_enabled"}:
        rec.nontriv([[x.split("_")[0] for x in kinds], sorted(flags)])


# ------------------------------------------------------------------------------------ concurrency

@st.composite
def conc_cases(draw):
    n = draw(st.integers(2, 8))
    return {"threads": [draw(st.sampled_from([[], [1], [2], [1, 2]])) for _ in range(n)],
            "rounds": draw(st.integers(1, 3))}


def check_concurrent(c, rec):
    import time

    counts = {}
    clock = threading.Lock()

    @U.cached
    def memo(*a):
        with clock:
            counts[a] = counts.get(a, 0) + 1
        time.sleep(0.002)  # widen the window between the cache lookup and the store
        return ("v", a)

    for _ in range(c["rounds"]):
        memo._invalidate_cache()
        counts.clear()
        n = len(c["threads"])
        barrier = threading.Barrier(n)
        results = [None] * n
        errors = []

        def worker(i, args):
            try:
                barrier.wait(timeout=10)
                results[i] = memo(*args)
            except Exception as e:  # pragma: no cover
                errors.append(e)

        ths = [threading.Thread(target=worker, args=(i, tuple(a))) for i, a in enumerate(c["threads"])]
        for t in ths:
            t.start()
        for t in ths:
            t.join(30)
        if errors or any(t.is_alive() for t in ths):
            raise Violation(f"concurrent first calls failed/hung: {errors}", {"kind": "concurrent_error"})
        for a, cnt in counts.items():
            if cnt != 1:
                raise Violation(f"memoized body ran {cnt} times for argument tuple {a} under {n} concurrent first calls",
                                {"kind": "concurrent_rerun"})
        for i, a in enumerate(c["threads"]):
            if results[i] != ("v", tuple(a)):
                raise Violation(f"thread {i} got {results[i]} for arguments {a}", {"kind": "concurrent_value"})
    dup = len(c["threads"]) - len({tuple(a) for a in c["threads"]})
    rec.label("contended" if dup else "distinct_args")
    if dup:
        rec.nontriv([sorted(map(tuple, c["threads"])), c["rounds"]])


# ------------------------------------------------------------------------------ clause: toggles racing with reads

@st.composite
def toggle_programs(draw):
    nthreads = draw(st.integers(2, 3))
    # thread 0 makes the toggle: re-enables queries (they start disabled) or switches the window-size swap
    toggle = draw(st.sampled_from(["q_on", "q_on", "swap_on", "swap_off"]))
    threads = [[{"op": toggle}]]
    if draw(st.booleans()):
        threads[0].insert(0, {"op": draw(st.sampled_from(READS[:3]))})
    for _ in range(nthreads - 1):
        threads.append([{"op": draw(st.sampled_from(READS[:3] + ["get_cell", "get_colors"]))}
                        for _ in range(draw(st.integers(1, 3)))])
    prof = draw(prof_st())
    prof["da1"] = True
    if draw(st.integers(0, 3)):
        prof.update(winops16=[20, 10], fg=prof["fg"] or "rgb:ffff/0000/0000", xtversion=prof["xtversion"] or ["paren", "foot", "1.2"])
    win = [draw(st.integers(1, 60)), draw(st.integers(1, 30)), 0, 0]
    if toggle != "q_on":
        win[2:] = draw(st.sampled_from([[600, 400], [1200, 900], [640, 480], [0, 0]]))  # a text area for which the swap matters
        threads[1].append({"op": "get_cell"})
    return {"threads": threads, "profile": prof, "win": win, "toggle": toggle,
            "schedule": draw(st.lists(st.integers(0, 4), min_size=1, max_size=40))}


def check_toggle_schedule(c, rec):
    """enable_queries() racing with reads in other threads, under schedules owned by the harness (scheduling
    points: every acquire/release of the cell-size lock, the terminal lock and the locks inside utils.cached).
    Once enable_queries() has returned and every thread is done, no result obtained while queries were disabled
    may still be served: the three reads must equal a fresh computation with queries enabled."""
    from ..sched import Deadlock, Scheduler, SLock

    reset_lib()
    prof = dict(c["profile"], delays=[0.0])
    simtty.set_winsize(*c["win"])
    T.reset(prof)
    sched = Scheduler(c["schedule"])
    saved = {k: getattr(U, k) for k in ("_tty_lock", "_cell_size_lock", "_cell_size_cache", "get_fg_bg_colors",
                                        "get_terminal_name_version", "RLock")}
    n = [0]

    def new_lock():
        n[0] += 1
        return SLock(sched, f"cached{n[0]}")

    events = []
    try:
        U._tty_lock = SLock(sched, "tty0")
        U._cell_size_lock = SLock(sched, "cell0")
        U._cell_size_cache = [0] * 4
        # the same decorator applied to the same undecorated functions, with its lock made a scheduling point
        U.RLock = new_lock
        U.get_fg_bg_colors = U.cached(saved["get_fg_bg_colors"].__wrapped__)
        U.get_terminal_name_version = U.cached(saved["get_terminal_name_version"].__wrapped__)
        U.RLock = saved["RLock"]
        toggle = c.get("toggle", "q_on")
        if toggle == "q_on":
            TI.disable_queries()
        elif toggle == "swap_off":
            TI.enable_win_size_swap()

        def read(k):
            if k == "get_cell":
                v = U.get_cell_size()
                return v and tuple(v)
            if k == "get_colors":
                return U.get_fg_bg_colors()
            return U.get_terminal_name_version()

        def make(name, acts):
            def run():
                for a in acts:
                    events.append((name, a["op"], "start"))
                    if a["op"] == "q_on":
                        TI.enable_queries()
                    elif a["op"] == "swap_on":
                        TI.enable_win_size_swap()
                    elif a["op"] == "swap_off":
                        TI.disable_win_size_swap()
                    else:
                        read(a["op"])
                    events.append((name, a["op"], "end"))
            return run

        for i, acts in enumerate(c["threads"]):
            sched.spawn(f"T{i}", make(f"T{i}", acts))
        what = f"threads={c['threads']} schedule={c['schedule']} profile={prof} win={c['win']}"
        try:
            sched.run()
        except Deadlock as e:
            raise Violation(f"deadlock: {e} [{what}]", {"kind": "deadlock"})
        for t in sched.threads:
            if t.exc is not None:
                raise Violation(f"thread {t.name} raised {type(t.exc).__name__}: {t.exc} [{what}]", {"kind": "thread_exception"})
        if not U._queries_enabled:
            raise Violation(f"queries are still disabled after enable_queries() returned [{what}]", {"kind": "not_enabled"})
        swap_final = toggle == "swap_on"
        if U._swap_win_size != swap_final:
            raise Violation(f"window-size swap is {U._swap_win_size} after {toggle} returned [{what}]", {"kind": "swap_state"})
        exp = {"get_cell": R.cell_size(prof, c["win"], swap_final, {}, True), "get_colors": R.colors(prof, True),
               "get_nv": R.name_version(prof, {}, True)}
        for k in ("get_cell", "get_colors", "get_nv"):
            got = read(k)
            if got != exp[k]:
                raise Violation(f"after {toggle} had returned (and all threads were done) {k} still returns {got!r}, a fresh "
                                f"computation under the settings now in force gives {exp[k]!r} [{what}]\n  events={events}",
                                {"kind": "stale_after_enable_concurrent", "read": k})
    finally:
        for k, v in saved.items():
            setattr(U, k, v)
        T.flush_all()
        T.unread_bytes()
    i0 = events.index(("T0", toggle, "start"))
    i1 = events.index(("T0", toggle, "end"))
    inside = any(e[0] != "T0" for e in events[i0:i1])
    rec.label("read_inside_enable" if inside else "no_overlap", f"toggle:{toggle}")
    if inside:
        rec.nontriv([events])


CLAUSES = [
    Clause("history", check_history, cases, budget={"quick": 1500, "thorough": 50000},
           floors={"compute_toggle": 0.03, "disabled_compute_enabled": 0.05}),
    Clause("concurrent", check_concurrent, conc_cases, budget={"quick": 150, "thorough": 3000}, floors={"contended": 0.3}),
    Clause("toggle_schedules", check_toggle_schedule, toggle_programs, budget={"quick": 400, "thorough": 12000},
           floors={"read_inside_enable": 0.2}),
]
