"""C02 — block renders show exactly the image's pixels (colour and transparency)."""

from __future__ import annotations

from hypothesis import strategies as st

from .. import gen
from ..core import Clause, Violation
from ..ref import pixels as refpx

META = {
    "level": "exploration",
    "rule": (
        "Hypothesis-generated BlockImage renders: image content (uniform, noise, per-row runs, per-cell "
        "runs where only the upper or only the lower pixel changes, single-pixel defects; palettes built "
        "from the effective background colour / its kitty-nudged neighbour / random colours x alpha "
        "values around the threshold, plus 'alias' entries = opaque colour equal to the composite of a "
        "translucent entry, so that alpha transitions inside a colour run are frequent) x all nine modes "
        "x alpha (None, float threshold incl. 0.0, k/255, 0.999, '#', '#rrggbb') x terminal background "
        "known/unknown x kitty workaround on/off x size in cells (cols<=24, lines<=12), exact-size and "
        "resampled sources. The render is executed on the vf.vt terminal model and read back as a "
        "cols x 2*lines array of half-cell colours, compared EXACTLY with vf.ref.pixels.text_pixels. "
        "Non-trivial = some cell line with >= 2 colour runs or an alpha transition inside a colour run; "
        "distinct by (mode, alpha kind, run structure per line, workaround). Optionally the image's first render "
        "is interrupted (KeyboardInterrupt at a generated line of block.py/common.py outside clean-up code, same or "
        "other alpha) before the judged one. Clause interrupted: for images up to 3x2 cells every source line the "
        "first render passes through is an interruption point (fresh image per point); the next render must equal an "
        "undisturbed twin's; non-trivial = >= 20 interruption points, distinct by (mode, alpha kinds, size)."
    ),
    "assumptions": [
        "a terminal ignores NUL characters (split_cells separators)",
        "kitty workaround (source comment in block.py): a cell whose SGR background colour equals the "
        "terminal's background colour may show (r+1,g,b) ((r-1,g,b) at r=255) in the half/halves painted "
        "with the cell background; accepted only on the kitty identity with a known background colour",
        "alpha threshold t makes a pixel transparent iff a < round(t*255) (Python round)",
    ],
}

I = None
env = None


def setup():
    global I, env
    from .. import env as _env

    _env.install()
    import term_image.image as _I

    I, env = _I, _env


# ------------------------------------------------------------------------ generation

MODES_W = ["RGBA", "RGBA", "RGBA", "RGBA", "LA", "LA", "PA", "PA", "P", "P", "RGB", "L", "1", "CMYK", "HSV"]
BG_LANDMARKS = [[0, 0, 0], [255, 255, 255], [128, 128, 128], [255, 0, 10], [255, 255, 0], [1, 2, 3], [40, 40, 40]]
NON_KITTY = [["", ""], ["xterm", "380"], ["konsole", "23.08.1"], ["wezterm", "20230712-072601-f4abf8fd"],
             ["iterm2", "3.4.19"]]


PATTERNS_W = ["cellruns", "cellruns", "cellruns", "cellruns", "noise", "noise", "noise", "uniform", "rowruns",
              "defect", "vstripes"]


def _nudge(c):
    return [c[0] + 1 if c[0] < 255 else c[0] - 1, c[1], c[2]]


@st.composite
def alpha_strategy(draw):
    # explicit selector: one_of() de-duplicates repeated branches, so it cannot carry weights
    # (Hypothesis over-represents 0, so the most valuable class comes first.)
    sel = draw(st.integers(0, 19))
    if sel < 5:
        return draw(st.integers(0, 254)) / 255
    if sel < 10:
        return draw(st.sampled_from([40 / 255, 0.0, 1 / 255, 0.5, 128 / 255, 254 / 255, 0.999]))
    if sel < 12:
        return None
    if sel < 14:
        return "#"
    if sel < 17:
        return "#%02x%02x%02x" % tuple(draw(st.one_of(gen.rgb, st.sampled_from(BG_LANDMARKS))))
    return draw(st.floats(0.0, 0.999, allow_nan=False))


@st.composite
def palettes(draw, alpha, bg):
    if isinstance(alpha, str) and alpha != "#":
        back = list(refpx.parse_hex(alpha))
    else:
        back = list(bg) if bg is not None else [0, 0, 0]
    if isinstance(alpha, float):
        k = round(alpha * 255)
    else:
        k = draw(st.sampled_from([0, 40, 128, 255]))
    pool = sorted({a for a in (0, 1, k - 1, k, k + 1, 254, 255) if 0 <= a <= 255})
    nbase = draw(st.integers(1, 3))
    entries = []
    for i in range(nbase):
        kind = draw(st.sampled_from(["back", "back", "back", "nudged", "rgb", "rgb", "landmark"]))
        if kind == "back":
            base = list(back)
        elif kind == "nudged":
            base = _nudge(back)
        elif kind == "rgb":
            base = draw(gen.rgb)
        else:
            base = list(draw(st.sampled_from(BG_LANDMARKS)))
        als = draw(st.lists(st.one_of(st.sampled_from(pool), st.sampled_from(pool), gen.byte),
                            min_size=1 if i else 2, max_size=3, unique=True))
        if isinstance(alpha, float) and k >= 1 and draw(st.booleans()):
            # one value on each side of the threshold: same colour, different transparency
            als = [draw(st.sampled_from([0, k - 1])), draw(st.sampled_from([k, 255]))] + als[2:]
        entries += [base + [a] for a in als]
    if draw(st.integers(0, 2)) == 0:
        entries.append({"alias": draw(st.integers(0, len(entries) - 1))})
    return entries[:8]


@st.composite
def contents(draw, w, h, n):
    """Palette indices of a w x h image, row-major."""
    ent = st.integers(0, n - 1)
    pattern = PATTERNS_W[draw(st.integers(0, len(PATTERNS_W) - 1))]
    if n == 1 or pattern == "uniform":
        return pattern, [draw(ent)] * (w * h)
    if pattern == "noise":
        return pattern, draw(st.lists(ent, min_size=w * h, max_size=w * h))
    rlen = st.integers(1, max(1, (w + 1) // 2))
    if pattern == "rowruns":
        rows = []
        for _ in range(h):
            row = []
            while len(row) < w:
                row += [draw(ent)] * draw(rlen)
            rows += row[:w]
        return pattern, rows
    if pattern == "vstripes":
        col = []
        while len(col) < w:
            col += [draw(ent)] * draw(rlen)
        return pattern, col[:w] * h
    if pattern == "defect":
        idx = [draw(ent)] * (w * h)
        for _ in range(draw(st.integers(1, 3))):
            idx[draw(st.integers(0, w * h - 1))] = draw(ent)
        return pattern, idx
    # cellruns: per pair of pixel rows, runs of (upper, lower); between consecutive runs only the
    # upper, only the lower, or both entries change
    idx = []
    for y in range(0, h, 2):
        up, lo = [], []
        u, l = draw(ent), draw(ent)
        while len(up) < w:
            k = draw(rlen)
            up += [u] * k
            lo += [l] * k
            which = draw(st.sampled_from(["u", "l", "u", "l", "b"]))
            if which in "ub":
                u = draw(ent)
            if which in "lb":
                l = draw(ent)
        idx += up[:w]
        if y + 1 < h:
            idx += lo[:w]
    return pattern, idx


small_cols = st.one_of(st.integers(1, 6), st.integers(1, 6), st.integers(1, 24))
small_lines = st.one_of(st.integers(1, 3), st.integers(1, 3), st.integers(1, 12))


@st.composite
def cases(draw):
    cols, lines = draw(small_cols), draw(small_lines)
    kitty = draw(st.booleans())
    bg = draw(st.one_of(st.none(), st.sampled_from(BG_LANDMARKS), st.sampled_from(BG_LANDMARKS), gen.rgb))
    alpha = draw(alpha_strategy())
    mode = draw(st.sampled_from(MODES_W))
    exact = draw(st.integers(0, 9)) < 6
    if exact:
        w, h = cols, 2 * lines
    else:
        w, h = draw(st.integers(1, 16)), draw(st.integers(1, 16))
    pal = draw(palettes(alpha, bg))
    pattern, idx = draw(contents(w, h, len(pal)))
    img = {"mode": mode, "w": w, "h": h, "palette": pal, "idx": idx, "pattern": pattern}
    if mode == "P" and draw(st.integers(0, 3)) > 0:
        img["transparency"] = draw(st.integers(0, 3))
    return {
        "abort": draw(st.one_of(st.none(), st.floats(0.0, 0.999, allow_nan=False), st.floats(0.0, 0.499, allow_nan=False))),
        # transparency setting of the interrupted render: the case's own, or another one
        "abort_alpha": draw(st.sampled_from(["same", None, None, "#", 0.5])),
        "cols": cols, "lines": lines, "img": img, "alpha": alpha, "bg": bg, "kitty": kitty,
        "ident": draw(st.sampled_from(NON_KITTY)),
    }


# ------------------------------------------------------------------------ helpers

def effective_back(alpha, bg):
    if isinstance(alpha, str) and alpha != "#":
        return list(refpx.parse_hex(alpha))
    return list(bg) if bg is not None else [0, 0, 0]


def resolve_palette(pal, alpha, bg):
    """Replaces {"alias": j} entries by the opaque colour equal to entry j composited over the
    effective background (Pillow's compositing, as in the reference)."""
    from PIL import Image

    back = effective_back(alpha, bg)
    out = []
    for e in pal:
        if isinstance(e, dict):
            src = pal[e["alias"] % len(pal)]
            if isinstance(src, dict):
                src = back + [255]
            px = Image.new("RGBA", (1, 1), tuple(src))
            out.append(list(refpx.over(px, back).getpixel((0, 0))) + [255])
        else:
            out.append(list(e))
    return out


def build(case):
    spec = dict(case["img"])
    spec["palette"] = resolve_palette(spec["palette"], case["alpha"], case["bg"])
    return spec, gen.build_image(spec)


def alpha_spec(alpha):
    """The transparency part of a format specifier denoting `alpha` (None when a float has no plain
    '.digits' decimal form that reads back exactly)."""
    if alpha is None:
        return "#"
    if alpha == "#":
        return "##"
    if isinstance(alpha, str):
        return alpha
    r = repr(float(alpha))
    if r.startswith("0.") and "e" not in r and float(r[1:]) == alpha:
        return "#" + r[1:]
    return None


def akind(alpha):
    if alpha is None:
        return "none"
    if isinstance(alpha, float):
        return "thr"
    return "termbg" if alpha == "#" else "hex"


def direct_expected(spec, alpha, bg):
    """Expected display computed from the generator's own data with no Pillow call at all;
    available only for exact-size RGB/RGBA sources whose alpha values are all 0 or 255."""
    if spec["mode"] not in ("RGB", "RGBA"):
        return None
    pal = spec["palette"]
    if any(p[3] not in (0, 255) for p in pal):
        return None
    back = tuple(effective_back(alpha, bg))
    k = refpx.threshold(alpha) if isinstance(alpha, float) else None
    w, h = spec["w"], spec["h"]
    rows = []
    for y in range(h):
        row = []
        for x in range(w):
            r, g, b, a = pal[spec["idx"][y * w + x]]
            if alpha is None or spec["mode"] == "RGB" or a == 255:
                row.append((r, g, b))
            elif k is not None:
                row.append(None if a < k else back)
            else:
                row.append(back)
        rows.append(row)
    return rows


# ------------------------------------------------------------------------ the check

def check_pixels(case, rec):
    from ..vt import DEFAULT_SGR, Screen

    env.reset()
    cols, lines, alpha, bg = case["cols"], case["lines"], case["alpha"], case["bg"]
    name, version = ("kitty", "0.26.5") if case["kitty"] else case["ident"]
    env.apply(cols=cols + 2, rows=lines + 2, name=name, version=version, bg=bg)
    workaround = bool(case["kitty"] and bg is not None)
    spec, pil = build(case)
    _, pil_ref = build(case)
    image = I.BlockImage(pil)
    interrupted = ""
    try:
        image.set_size(cols, lines)
        if tuple(image.rendered_size) != (cols, lines):
            raise Violation(f"rendered_size {image.rendered_size} != requested {(cols, lines)}")
        # abort-then-reuse: the first render of this image (and of the caller's PIL image) is interrupted -- Ctrl-C at a
        # generated line of the block renderer or of the shared image code, possibly under another transparency
        # setting; the renders that follow are judged against the reference like any other
        if case.get("abort") is not None and cols * lines <= 60:
            from ..faults import interrupt_at

            files = ("image/block.py", "image/common.py")
            a_alpha = alpha if case.get("abort_alpha", "same") == "same" else case["abort_alpha"]
            _, pil_dry = build(case)
            dry_image = I.BlockImage(pil_dry)
            dry_image.set_size(cols, lines)
            try:
                lf = interrupt_at(files, case["abort"], lambda: image._renderer(image._render_image, a_alpha),
                                  dry_fn=lambda: dry_image._renderer(dry_image._render_image, a_alpha))
            except Exception as e:
                raise Violation(f"block render raised {type(e).__name__}: {e}", {"kind": "render_exception"})
            finally:
                dry_image.close()
            if lf is not None and lf.fired:
                rec.label("abort_then_reuse")
                interrupted = f" after a render with alpha={a_alpha!r} was interrupted at {lf.where}"
        try:
            out = image._renderer(image._render_image, alpha)
            out2 = image._renderer(image._render_image, alpha)
            outs = image._renderer(image._render_image, alpha, split_cells=True)
        except Exception as e:
            raise Violation(f"block render raised {type(e).__name__}: {e}", {"kind": "render_exception"})
        # the public path: the same transparency setting written as a format specifier ("1.1" = padding that
        # is never larger than the render, i.e. none) must give the very same render
        aspec = alpha_spec(alpha)
        if aspec is not None:
            try:
                pub = format(image, "1.1" + aspec)
            except Exception as e:
                raise Violation(f"format(image, {'1.1' + aspec!r}) raised {type(e).__name__}: {e}", {"kind": "format_exception"})
            if pub != out:
                raise Violation(f"format(image, {'1.1' + aspec!r}) differs from the render with alpha={alpha!r} "
                                f"(mode {pil.mode}, {cols}x{lines} cells)", {"clause": "format_path", "alpha": akind(alpha)})
            rec.label("format_path")
    finally:
        image.close()

    W, H = cols, 2 * lines
    exact = (spec["w"], spec["h"]) == (W, H)
    exp = refpx.text_pixels(pil_ref, alpha, (W, H), bg)
    disp = [[(c if o else None) for c, o in row] for row in exp]
    if exact:
        direct = direct_expected(spec, alpha, bg)
        if direct is not None and direct != disp:
            raise RuntimeError(f"reference self-check failed: vf.ref.pixels != direct expectation for {case}")

    # --- classification (from the reference only)
    mode = spec["mode"]
    ak = akind(alpha)
    uniform_src = len(set(spec["idx"])) == 1
    structure = []
    multi_run = alpha_in_run = False
    atr = set()
    nudge_cells = 0
    tbg = tuple(bg) if bg is not None else None
    for ly in range(lines):
        up, lo = exp[2 * ly], exp[2 * ly + 1]
        runs, n = [], 1
        for x in range(1, W):
            same_rgb = up[x][0] == up[x - 1][0] and lo[x][0] == lo[x - 1][0]
            du, dl = up[x][1] != up[x - 1][1], lo[x][1] != lo[x - 1][1]
            same_disp = disp[2 * ly][x] == disp[2 * ly][x - 1] and disp[2 * ly + 1][x] == disp[2 * ly + 1][x - 1]
            if same_rgb and (du or dl):
                alpha_in_run = True
                if du and not dl:
                    atr.add("atr:upper_" + ("to_opaque" if up[x][1] else "to_transparent"))
                elif dl and not du:
                    atr.add("atr:lower_" + ("to_opaque" if lo[x][1] else "to_transparent"))
                else:
                    atr.add("atr:both")
            if same_disp:
                n += 1
            else:
                runs.append(n)
                n = 1
        runs.append(n)
        if len(runs) >= 2:
            multi_run = True
        structure.append(runs)
        if workaround:
            for x in range(W):
                if up[x][1] and lo[x][1] and lo[x][0] == tbg:
                    nudge_cells += 1
    rec.label(f"mode:{mode}", f"alpha:{ak}", "exact" if exact else "resampled",
              "workaround" if workaround else "no_workaround", "bg_known" if bg is not None else "bg_unknown",
              f"pattern:{spec['pattern']}")
    rec.label(*sorted(atr))
    if alpha_in_run:
        rec.label("alpha_in_run")
    if multi_run:
        rec.label("multi_run")
    if nudge_cells:
        rec.label("nudge_cells")
    if uniform_src:
        rec.label("uniform")
    if any(not o for row in exp for _, o in row):
        rec.label("has_transparent")
    if multi_run or alpha_in_run:
        rec.nontriv([mode, ak, structure, alpha_in_run, workaround])

    sig = {"mode": mode, "alpha": ak, "exact": exact}

    # --- metamorphic: determinism, split_cells
    if out2 != out:
        raise Violation("rendering the same image twice gave different strings", {**sig, "clause": "deterministic"})
    if outs.replace("\0", "") != out:
        raise Violation("split_cells=True output differs from the plain output after deleting NULs",
                        {**sig, "clause": "split_cells"})
    if "\0" in out:
        raise Violation("NUL in a render without split_cells", {**sig, "clause": "split_cells"})

    # --- execute on the terminal model
    scr = Screen(cols, lines, strict=True)
    scr.feed(outs if case["kitty"] else out, onlcr=True)  # NULs are ignored by terminals
    if scr.events or not scr.in_ground():
        raise Violation(f"control-sequence anomalies {scr.events[:4]} / parser state {scr.parser_state()}",
                        {**sig, "clause": "sequences"})
    if scr.scrolls:
        raise Violation(f"a {cols}x{lines} render scrolled a {cols}x{lines} screen {scr.scrolls}x "
                        f"(more than {lines} lines)", {**sig, "clause": "lines"})
    if scr.sgr != DEFAULT_SGR:
        raise Violation(f"colours not reset at the end of the render: {scr.sgr}", {**sig, "clause": "sgr"})

    got = [[None] * W for _ in range(H)]
    for y in range(lines):
        for x in range(cols):
            if not scr.touched[y][x]:
                raise Violation(f"cell {(x, y)} of the {cols}x{lines} render was never written",
                                {**sig, "clause": "coverage"})
            (u, l), kind = scr.halves(x, y)
            if kind not in ("blank", "upper", "lower"):
                raise Violation(f"cell {(x, y)} holds {scr.grid[y][x][0]!r}, not a half-block/space",
                                {**sig, "clause": "glyph"})
            for half, val in ((0, u), (1, l)):
                if val is not None and not (isinstance(val, tuple) and len(val) == 3 and val[0] != "idx"):
                    raise Violation(f"cell {(x, y)} uses a non direct-colour attribute {val!r}",
                                    {**sig, "clause": "glyph"})
                got[2 * y + half][x] = val
            cell_bg = scr.grid[y][x][2]
            # halves painted with the cell's background colour
            painted_bg = {"blank": (0, 1), "upper": (1,), "lower": (0,)}[kind]
            for half in (0, 1):
                want = disp[2 * y + half][x]
                have = got[2 * y + half][x]
                if workaround and half in painted_bg and cell_bg is not None and tuple(cell_bg) == tuple(tbg):
                    # kitty does not paint a background colour equal to its default background (the reason
                    # for the library's workaround): such a half shows the terminal's own background
                    have = None
                if have == want:
                    continue
                if (workaround and half in painted_bg and cell_bg is not None and want == tbg
                        and have == refpx.nudge(tbg)):
                    rec.count("nudged_halves")
                    continue
                src = None
                if exact:
                    src = spec["palette"][spec["idx"][(2 * y + half) * W + x]]
                raise Violation(
                    f"{'upper' if half == 0 else 'lower'} half of cell {(x, y)} shows {have}, expected {want} "
                    f"(mode {mode}, alpha {alpha!r}, terminal bg {bg}, kitty workaround {workaround}, "
                    f"{'exact-size' if exact else 'resampled from %dx%d' % (spec['w'], spec['h'])}"
                    + (f", source pixel {src}" if src is not None else "") + ")" + interrupted,
                    {**sig, "clause": "pixels", "half": "upper" if half == 0 else "lower",
                     "want_transparent": want is None, "have_transparent": have is None},
                )

    # --- a uniformly coloured image stays uniform at any size (judged on the read-back alone)
    if uniform_src:
        flat = {v for row in got for v in row}
        if len(flat) != 1:
            raise Violation(f"uniform {mode} image {spec['w']}x{spec['h']} rendered at {cols}x{lines} cells "
                            f"is not uniform: {sorted(map(str, flat))[:4]}", {**sig, "clause": "uniform"})


# ------------------------------------------------------------------------ every interruption point of a first render

@st.composite
def interrupt_cases(draw):
    c = draw(cases())
    c["cols"], c["lines"] = draw(st.integers(1, 3)), draw(st.integers(1, 2))
    mode = draw(st.sampled_from(["P", "P", "PA", "RGBA", "LA", "RGB", "L"]))
    pal = c["img"]["palette"]
    w, h = (c["cols"], 2 * c["lines"]) if draw(st.booleans()) else (draw(st.integers(1, 4)), draw(st.integers(1, 4)))
    c["img"] = {"mode": mode, "w": w, "h": h, "palette": pal, "idx": [draw(st.integers(0, len(pal) - 1)) for _ in range(w * h)]}
    if mode == "P" and draw(st.integers(0, 3)) > 0:
        c["img"]["transparency"] = draw(st.integers(0, min(3, len(pal) - 1)))
    c["abort_alpha"] = draw(st.sampled_from(["same", None, "#", 0.5, "#102030"]))
    return c


def check_interrupt(case, rec):
    """The first render of a fresh image over a fresh PIL image is interrupted at *every* source line of the block
    renderer / shared image code it passes through (one fresh pair per line), under the case's or another transparency
    setting; the next render must equal what an undisturbed twin renders (which clause `pixels` judges)."""
    from ..faults import LineFault

    env.reset()
    cols, lines, alpha, bg = case["cols"], case["lines"], case["alpha"], case["bg"]
    name, version = ("kitty", "0.26.5") if case["kitty"] else case["ident"]
    env.apply(cols=cols + 2, rows=lines + 2, name=name, version=version, bg=bg)
    files = ("image/block.py", "image/common.py")
    a_alpha = alpha if case["abort_alpha"] == "same" else case["abort_alpha"]

    def fresh():
        _, pil = build(case)
        im = I.BlockImage(pil)
        im.set_size(cols, lines)
        return im

    twin = fresh()
    try:
        ref = twin._renderer(twin._render_image, alpha)
        with LineFault(files) as dry:
            twin._renderer(twin._render_image, a_alpha)
    except Exception as e:
        raise Violation(f"block render raised {type(e).__name__}: {e}", {"kind": "render_exception"})
    finally:
        twin.close()
    fired = 0
    for k in range(1, dry.distinct_lines + 1):
        im = fresh()
        lf = LineFault(files, k, KeyboardInterrupt, distinct=True)
        try:
            try:
                with lf:
                    im._renderer(im._render_image, a_alpha)
            except KeyboardInterrupt:
                pass
            if not lf.fired:
                continue
            fired += 1
            try:
                again = im._renderer(im._render_image, alpha)
            except Exception as e:
                raise Violation(f"the render after one interrupted at {lf.where} raised {type(e).__name__}: {e}",
                                {"clause": "abort_then_reuse", "kind": "exception"})
            if again != ref:
                raise Violation(f"a {case['img']['mode']} image's first render (alpha={a_alpha!r}) was interrupted by Ctrl-C at {lf.where}; "
                                f"its next render with alpha={alpha!r} is {again!r}, an undisturbed twin renders {ref!r}",
                                {"clause": "abort_then_reuse", "other_alpha": a_alpha != alpha})
            if tuple(im.size) != (cols, lines):
                raise Violation(f"an interrupted render changed the image size to {im.size}", {"clause": "abort_then_reuse", "kind": "size"})
        finally:
            im.close()
    rec.count("interruption_points", fired)
    rec.label(f"mode:{case['img']['mode']}", "other_alpha" if a_alpha != alpha else "same_alpha")
    if fired >= 20:
        rec.nontriv([case["img"]["mode"], akind(alpha), akind(a_alpha), "transparency" in case["img"], cols, lines])


CLAUSES = [
    Clause(
        "pixels",
        check_pixels,
        cases,
        budget={"quick": 3000, "thorough": 150000},
        # measured minima over seeds 1..7 (quick) are >= 2x each floor
        floors={"alpha:thr": 0.35, "alpha:none": 0.03, "alpha:hex": 0.05, "alpha:termbg": 0.03,
                "alpha_in_run": 0.03, "atr:upper_to_opaque": 0.01, "atr:upper_to_transparent": 0.01,
                "atr:lower_to_opaque": 0.01, "atr:lower_to_transparent": 0.01,
                "multi_run": 0.2, "workaround": 0.18, "no_workaround": 0.3, "nudge_cells": 0.06,
                "exact": 0.3, "resampled": 0.2, "uniform": 0.05, "has_transparent": 0.1,
                "bg_unknown": 0.1, "mode:RGBA": 0.1, "mode:LA": 0.05, "mode:PA": 0.05, "mode:P": 0.05,
                "mode:1": 0.02, "mode:L": 0.02, "mode:RGB": 0.02, "mode:CMYK": 0.02, "mode:HSV": 0.02},
    ),
    Clause("interrupted", check_interrupt, interrupt_cases, budget={"quick": 250, "thorough": 4000},
           floors={"other_alpha": 0.3, "mode:P": 0.15}),
]
