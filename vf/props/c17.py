"""C17 — trimming an urwid image canvas equals cropping what the full canvas shows."""

from __future__ import annotations

from hypothesis import strategies as st

from .. import gen
from ..core import Clause, Violation
from ..ref import padding as R

META = {
    "level": "exploration",
    "rule": (
        "Hypothesis-generated (image <=16x16 px with alpha patterns, style block/kitty/iterm2, terminal identity, "
        "terminal background, cell size, box or flow widget size, h/v alignment incl. ignored padding numbers, "
        "upscale, alpha spec, render method, disguise state). The widget is rendered through urwid; the full canvas "
        "is executed on the vf.vt terminal model and anchored against the independently rendered image placed by "
        "the reference padding arithmetic. Then EVERY sub-rectangle (trim_left, trim_top, cols, rows) of canvases up "
        "to 12x8 cells (above that: every horizontal cut on short windows, every vertical cut for <=24 rows, plus 60 "
        "generated landmark-biased rectangles) is requested with canvas.content(); every yielded row is executed on "
        "a one-line strict model screen pre-filled with a sentinel: exactly `rows` rows, cursor advance == cols, "
        "no cell beyond the right edge touched, default SGR at the end, no control-sequence anomaly; text rows "
        "equal cell for cell (upper, lower half colours) the crop of the full canvas; graphics rows are byte-equal "
        "to the corresponding full lines (pure vertical trim) or exactly `cols` default blanks with no graphics "
        "command (any horizontal trim). A subset of rectangles is also requested the way urwid does, through "
        "CompositeCanvas.trim/pad_trim_left_right. Flow widgets: rows((c,)) == render((c,)).rows() == rows yielded. "
        "Non-trivial = (text) a horizontal cut strictly inside the image on a window containing an image line with "
        ">=2 colour runs, or (graphics) a vertical cut strictly inside the image / any horizontal cut; distinct by "
        "(style, h_align, v_align, 5-way class of each of the four cut edges, cut lands mid-run or on a run boundary)."
    ),
    "assumptions": [
        "NUL bytes in canvas rows are ignored by the terminal (urwid last-row workaround)",
        "the 'disguise' suffix (BS SP pairs) on graphics rows rewrites the last column with a default blank and is "
        "harmless where images are separate placements (kitty protocol; konsole's iterm2 emulation)",
        "content() is asked with explicit integers for all four values (cols/rows=None only where no trimming on "
        "that axis), which is how urwid's CompositeCanvas requests sub-rectangles",
    ],
}

I = env = urwid = UrwidImage = UrwidImageCanvas = None


def setup():
    global I, env, urwid, UrwidImage, UrwidImageCanvas
    from .. import env as _env

    _env.install()
    import term_image.image as _I
    import urwid as _urwid
    from term_image.widget import UrwidImage as _W, UrwidImageCanvas as _C

    I, env, urwid, UrwidImage, UrwidImageCanvas = _I, _env, _urwid, _W, _C


# ------------------------------------------------------------------------------ generation

IMG_MODES = ["RGBA", "RGBA", "RGBA", "RGBA", "LA", "PA", "P", "RGB", "RGB", "L", "1"]
ALPHAS = [None, None, "#", "#.5", "#.0", "#.99", "##", "#ffffff", "#000000", "#102030"]
BLOCK_IDENTS = [["", ""], ["", ""], ["kitty", "0.26.5"], ["kitty", "0.26.5"], ["konsole", "22.04.0"], ["xterm", "380"]]
KITTY_IDENTS = [["kitty", "0.26.5"], ["kitty", "0.20.0"], ["konsole", "22.04.0"], ["konsole", "22.04.0"], ["", ""]]
ITERM2_IDENTS = [["konsole", "22.04.0"], ["konsole", "23.08.1"], ["wezterm", "20230712-072601-f4abf8fd"],
                 ["iterm2", "3.4.19"], ["", ""]]
N_SAMPLED = 60
coord = st.integers(0, 999)


@st.composite
def trim_image(draw, w, h):
    """Image spec in the format of gen.build_image, biased towards several colour runs per line and
    towards fully transparent / partially transparent stretches."""
    if draw(st.integers(0, 5)) == 0:
        return draw(gen.still_image(size=(w, h), modes=IMG_MODES))
    mode = draw(st.sampled_from(IMG_MODES))
    ncol = draw(st.integers(2, 4))
    palette = []
    for k in range(ncol):
        a = draw(st.sampled_from([255, 255, 255, 0, 0, 39, 41, 128, 254]))
        palette.append([(draw(gen.byte) // 32 * 32 + 7 * k) % 256, draw(gen.byte), draw(gen.byte), a])
    n = w * h
    pattern = draw(st.sampled_from(["hruns", "hruns", "vruns", "checker", "noise", "noise", "rowpairs", "defect"]))
    if pattern == "hruns":
        idx = []
        while len(idx) < n:
            idx += [draw(st.integers(0, ncol - 1))] * draw(st.integers(1, max(1, w // 2)))
        idx = idx[:n]
    elif pattern == "vruns":
        col = []
        while len(col) < w:
            col += [draw(st.integers(0, ncol - 1))] * draw(st.integers(1, max(1, w // 3 + 1)))
        idx = col[:w] * h
    elif pattern == "checker":
        idx = [((i % w) + (i // w)) % ncol for i in range(n)]
    elif pattern == "rowpairs":
        # whole pixel rows of one colour: upper/lower halves differ, runs span the line
        rows = [draw(st.integers(0, ncol - 1)) for _ in range(h)]
        idx = [rows[i // w] for i in range(n)]
        for _ in range(draw(st.integers(0, 3))):
            idx[draw(st.integers(0, n - 1))] = draw(st.integers(0, ncol - 1))
    elif pattern == "defect":
        idx = [0] * n
        for _ in range(draw(st.integers(1, 4))):
            idx[draw(st.integers(0, n - 1))] = draw(st.integers(1, ncol - 1))
    else:
        idx = draw(st.lists(st.integers(0, ncol - 1), min_size=n, max_size=n))
    spec = {"mode": mode, "w": w, "h": h, "palette": palette, "idx": idx}
    if mode == "P" and draw(st.booleans()):
        spec["transparency"] = draw(st.integers(0, 3))
    return spec


@st.composite
def canvases(draw, rows_only=False):
    style = draw(st.sampled_from(["block", "block", "block", "kitty", "iterm2"]))
    flow = draw(st.integers(0, 2)) == 0 or rows_only
    iw = draw(st.integers(1, 16))
    # flow canvases are as tall as the aspect ratio dictates: keep images at most ~2x as tall as wide
    ih = draw(st.integers(1, min(16, 2 * iw + 1) if flow else 16))
    c = {
        "style": style,
        "image": draw(trim_image(iw, ih)),
        "ident": draw(st.sampled_from({"block": BLOCK_IDENTS, "kitty": KITTY_IDENTS, "iterm2": ITERM2_IDENTS}[style])),
        "bg": draw(st.sampled_from(["none", "pal", "pal", "rgb"])),
        "bg_rgb": draw(gen.rgb),
        "bg_k": draw(st.integers(0, 3)),
        "ratio": draw(st.sampled_from([0.5, 0.5, 0.5, 0.3, 1.0])),
        # (now and then a very wide box canvas: blank runs of several hundred columns)
        "size": [draw(st.integers(1, 24))] if flow else
                [draw(st.sampled_from([257, 300, 520])), draw(st.integers(1, 3))] if draw(st.integers(0, 13)) == 0 else
                [draw(st.integers(1, 24)), draw(st.integers(1, 12))],
        "h": draw(st.sampled_from([None, "<", "|", ">", "<", ">"])),
        "v": draw(st.sampled_from([None, "^", "-", "_", "^", "_"])),
        "pw": draw(st.sampled_from([None, None, 1, 7, 200])),
        "ph": draw(st.sampled_from([None, None, 1, 5, 100])),
        "upscale": draw(st.booleans()),
        "alpha": draw(st.sampled_from(ALPHAS)),
    }
    if style == "block":
        c["cell"] = draw(st.sampled_from([[9, 18], [9, 18], [1, 2], [4, 4]]))
    else:
        cw = draw(st.integers(1, 4))
        c["cell"] = [cw, draw(st.integers(cw, 6))]
        c["method"] = draw(st.sampled_from([None, None, None, "L", "W"]))
        c["disguise"] = draw(st.sampled_from([[0, 0], [0, 0], [0, 0], [1, 0], [0, 2], [2, 2], [1, 1]]))
    if not rows_only:
        c["trims"] = draw(st.lists(st.tuples(*[coord] * 8).map(list), min_size=N_SAMPLED, max_size=N_SAMPLED))
        c["composite"] = draw(st.integers(0, 12))
    else:
        c["flow_how"] = draw(st.sampled_from([0, 0, 1, 1, 2, 3]))  # see check_flow_rows
    return c


def format_spec(c):
    s = (c["h"] or "") + ("" if c["pw"] is None else str(c["pw"]))
    if c["v"] is not None or c["ph"] is not None:
        s += "." + (c["v"] or "") + ("" if c["ph"] is None else str(c["ph"]))
    s += c["alpha"] or ""
    if c.get("method"):
        s += "+" + c["method"]
    return s


# ------------------------------------------------------------------------------ helpers

def lib(fn, what):
    try:
        return fn()
    except Violation:
        raise
    except Exception as e:
        raise Violation(f"{what} raised {type(e).__name__}: {e}", {"kind": "exception", "what": what.split("(")[0]})


def row_bytes(row, what):
    """A content() row is a list of (attr, charset, bytes) segments -> concatenated bytes."""
    if not isinstance(row, list):
        raise Violation(f"{what}: a row is {type(row).__name__}, not a list of segments", {"kind": "row_shape"})
    out = []
    for seg in row:
        if not (isinstance(seg, tuple) and len(seg) == 3 and isinstance(seg[2], bytes)):
            raise Violation(f"{what}: malformed segment {seg!r}", {"kind": "row_shape"})
        if seg[0] is not None or seg[1] not in (None, "U"):
            raise Violation(f"{what}: segment carries attribute/charset {seg[:2]!r}", {"kind": "row_shape"})
        out.append(seg[2])
    return b"".join(out)


BLANK = (" ", None, None, frozenset(), None)
SENTINEL = "~"


class Lines:
    """Executes single canvas rows on a one-line model screen (memoised per case by bytes)."""

    def __init__(self, profile):
        self.profile = profile
        self.memo = {}
        self.executed = 0

    def run(self, data: bytes, cols: int):
        """-> (problem or None, cells, n_graphics_commands); cells[x] = (upper, lower) colours."""
        key = (data, cols)
        got = self.memo.get(key)
        if got is None:
            got = self.memo[key] = self._run(data, cols)
        return got

    def _run(self, data, cols):
        from ..vt import DEFAULT_SGR, Screen

        self.executed += 1
        try:
            text = data.decode("utf-8")
        except UnicodeDecodeError as e:
            return f"row is not valid UTF-8 ({e})", None, 0
        scr = Screen(cols + 3, 1, profile=self.profile, strict=True)
        scr.fill(SENTINEL)
        scr.feed(text)
        if not scr.in_ground():
            return f"row leaves the terminal parser in state {scr.parser_state()}", None, 0
        if scr.events:
            return f"control-sequence anomalies {scr.events[:3]}", None, 0
        if scr.scrolls or scr.clamps:
            return f"row scrolls the screen / runs the cursor into a margin (clamps {scr.clamps[:2]})", None, 0
        if scr.x != cols or scr.wrap_pending or scr.y != 0:
            return f"row advances the cursor by {scr.x} columns instead of {cols}", None, 0
        if scr.sgr != DEFAULT_SGR:
            return f"row ends with active attributes {scr.sgr} (colours bleed past its right edge)", None, 0
        if not scr.cursor_visible or scr.sync_depth or scr.insert_mode or not scr.autowrap:
            return "row changes a terminal mode", None, 0
        g = scr.grid[0]
        for x in range(cols, cols + 3):
            if scr.touched[0][x] or g[x][0] != SENTINEL or scr.covered_by_graphics(x, 0):
                return f"row modifies column {x}, beyond its {cols} columns", None, 0
        cells = []
        for x in range(cols):
            ch, fg, bg, attrs, img = g[x]
            if scr.covered_by_graphics(x, 0):
                cells.append(("gfx",))
                continue
            if not scr.touched[0][x]:
                return f"column {x} of the row is not written", None, 0
            if ch not in (" ", "▀", "▄") or attrs:
                return f"column {x} holds glyph {ch!r} with attributes {sorted(attrs)}", None, 0
            cells.append(scr.halves(x, 0)[0])
        return None, tuple(cells), len(scr.graphics_log)


def run_full(rows, W, H, profile, what):
    """Executes the untrimmed canvas row by row on a W+3 x H screen -> Screen."""
    from ..vt import DEFAULT_SGR, Screen

    scr = Screen(W + 3, H, profile=profile, strict=True)
    scr.fill(SENTINEL)
    for i, data in enumerate(rows):
        try:
            text = data.decode("utf-8")
        except UnicodeDecodeError as e:
            raise Violation(f"{what}: full row {i} is not valid UTF-8 ({e})", {"kind": "full", "sub": "utf8"})
        if i:
            scr.feed("\r\n")
        scr.feed(text)
        if not scr.in_ground():
            raise Violation(f"{what}: full row {i} leaves the parser in state {scr.parser_state()}", {"kind": "full", "sub": "parser"})
        if (scr.x, scr.y, scr.wrap_pending) != (W, i, False):
            raise Violation(f"{what}: after full row {i} the cursor is at {(scr.x, scr.y)}, expected {(W, i)}",
                            {"kind": "full", "sub": "cursor"})
        if scr.sgr != DEFAULT_SGR:
            raise Violation(f"{what}: full row {i} ends with active attributes {scr.sgr}", {"kind": "full", "sub": "sgr"})
    if scr.events or scr.scrolls or scr.clamps:
        raise Violation(f"{what}: full canvas anomalies {scr.events[:3]} scrolls={scr.scrolls} clamps={scr.clamps[:2]}",
                        {"kind": "full", "sub": "anomaly"})
    for y in range(H):
        for x in range(W, W + 3):
            if scr.touched[y][x] or scr.grid[y][x][0] != SENTINEL or scr.covered_by_graphics(x, y):
                raise Violation(f"{what}: full canvas modifies cell {(x, y)} beyond its {W} columns", {"kind": "full", "sub": "outside"})
    return scr


def text_grid(scr, W, H, what, kind):
    grid = []
    for y in range(H):
        row = []
        for x in range(W):
            ch, fg, bg, attrs, img = scr.grid[y][x]
            if not scr.touched[y][x] or ch not in (" ", "▀", "▄") or attrs or img is not None:
                raise Violation(f"{what}: {kind} cell {(x, y)} is {scr.grid[y][x]} touched={scr.touched[y][x]}",
                                {"kind": "full", "sub": "glyph"})
            row.append(scr.halves(x, y)[0])
        grid.append(tuple(row))
    return grid


def edge_class(pos, a, b):
    """Position of a cut relative to the image extent [a, b): before / at start / inside / at end / after."""
    if pos < a:
        return 0
    if pos == a:
        return 1
    if pos < b:
        return 2
    if pos == b:
        return 3
    return 4


def pick(sel, val, lo, hi, marks):
    """A coordinate in [lo, hi]: landmark-biased, construction not rejection."""
    if sel % 3:
        cands = [m for m in marks if lo <= m <= hi]
        if cands:
            return cands[val % len(cands)]
    return lo + val % (hi - lo + 1)


# ------------------------------------------------------------------------------ the check

def configure(c):
    import term_image

    env.reset()
    term_image.set_cell_ratio(c["ratio"])
    pal = c["image"]["palette"]
    bg = None if c["bg"] == "none" else (c["bg_rgb"] if c["bg"] == "rgb" else pal[c["bg_k"] % len(pal)][:3])
    env.apply(cols=80, rows=30, cell=c["cell"], name=c["ident"][0], version=c["ident"][1], bg=bg)
    urwid.CanvasCache.clear()
    UrwidImage._ti_next_z_index = 1
    UrwidImage._ti_free_z_indexes.clear()
    UrwidImage._ti_error_placeholder = None
    UrwidImageCanvas._ti_disguise_state = 0
    return bg


def build(c):
    cls = {"block": I.BlockImage, "kitty": I.KittyImage, "iterm2": I.ITerm2Image}[c["style"]]
    pil = gen.build_image(c["image"])
    image = cls(pil)
    spec = format_spec(c)
    w = lib(lambda: UrwidImage(image, spec, upscale=c["upscale"]), f"UrwidImage(image, {spec!r})")
    for _ in range(c.get("disguise", [0, 0])[0]):
        UrwidImageCanvas._ti_change_disguise()
    for _ in range(c.get("disguise", [0, 0])[1]):
        w._ti_change_disguise()
    return pil, image, w, spec


def render_canvas(c, w, what):
    size = tuple(c["size"])
    announced = None
    if len(size) == 1:
        announced = lib(lambda: w.rows(size), f"{what}: rows({size})")
    canv = lib(lambda: w.render(size), f"{what}: render({size})")
    if not isinstance(canv, UrwidImageCanvas):
        raise Violation(f"{what}: render({size}) returned {type(canv).__name__}", {"kind": "canvas_type"})
    W, H = canv.cols(), canv.rows()
    if W != size[0] or (len(size) == 2 and H != size[1]):
        raise Violation(f"{what}: canvas is {W}x{H} for widget size {size}", {"kind": "canvas_size"})
    if announced is not None and announced != H:
        raise Violation(f"{what}: flow widget announces {announced} rows for width {size[0]} but its canvas has {H}",
                        {"kind": "flow_rows"})
    full = [row_bytes(r, what) for r in lib(lambda: list(canv.content()), f"{what}: content()")]
    if len(full) != H or H < 1:
        raise Violation(f"{what}: canvas of {H} rows yields {len(full)} rows"
                        + ("" if announced is None else f" (flow widget announced {announced})"),
                        {"kind": "flow_rows" if announced is not None else "row_count"})
    return canv, W, H, full


def check_trim(c, rec):
    from ..vt import Screen

    configure(c)
    pil, image, w, spec = build(c)
    try:
        _check_trim(c, rec, image, w, spec, Screen)
    finally:
        del w
        image.close()
        pil.close()
        UrwidImageCanvas._ti_disguise_state = 0


def _check_trim(c, rec, image, w, spec, Screen):
    style = c["style"]
    profile = env.model_profile()
    flow = len(c["size"]) == 1
    what = f"{style} {c['image']['w']}x{c['image']['h']}px spec={spec!r} upscale={c['upscale']} size={tuple(c['size'])} on {c['ident'][0] or 'other'}"
    canv, W, H, full = render_canvas(c, w, what)
    iw, ih = image.rendered_size
    what += f" canvas {W}x{H} image {iw}x{ih}"
    if iw > W or ih > H:
        raise Violation(f"{what}: the image is larger than the canvas", {"kind": "full", "sub": "image_size"})
    pl, pt, pr, pb = R.aligned((iw, ih), (W, H), R.H_CHARS[c["h"]], R.V_CHARS[c["v"]])
    method = (c.get("method") or "L") if style != "block" else "-"

    # ---- the untrimmed canvas: executed once, anchored against an independent render
    scr = run_full(full, W, H, profile, what)
    if style == "block":
        grid = text_grid(scr, W, H, what, "full canvas")
        plain = lib(lambda: format(image, "1.1" + (c["alpha"] or "")), f"{what}: format(image)")
        ref = Screen(iw, ih, profile=profile, strict=True)
        ref.feed(plain, onlcr=True)
        if ref.events or ref.scrolls or not ref.in_ground():
            raise AssertionError(f"harness: reference render misbehaves {ref.events[:3]}")
        rgrid = text_grid(ref, iw, ih, what, "reference render")
        for y in range(H):
            for x in range(W):
                inside = pt <= y < pt + ih and pl <= x < pl + iw
                exp = rgrid[y - pt][x - pl] if inside else (None, None)
                if grid[y][x] != exp:
                    raise Violation(f"{what}: full canvas cell {(x, y)} shows {grid[y][x]}, expected {exp} "
                                    f"({'image cell ' + str((x - pl, y - pt)) if inside else 'padding'}; padding l/t/r/b={pl, pt, pr, pb})",
                                    {"kind": "full", "sub": "content"})
        runs2 = [any(grid[y][x] != grid[y][x + 1] for x in range(pl, pl + iw - 1)) for y in range(H)]
        for y in range(H):
            if not pt <= y < pt + ih:
                runs2[y] = False
    else:
        grid = None
        runs2 = [False] * H
        for y in range(H):
            for x in range(W):
                inside = pt <= y < pt + ih and pl <= x < pl + iw
                cov = scr.covered_by_graphics(x, y)
                if inside != cov:
                    raise Violation(f"{what}: full canvas cell {(x, y)} is {'not ' if inside else ''}covered by graphics "
                                    f"(padding l/t/r/b={pl, pt, pr, pb})", {"kind": "full", "sub": "content"})
                if not inside and scr.grid[y][x] != BLANK:
                    raise Violation(f"{what}: full canvas padding cell {(x, y)} is {scr.grid[y][x]}", {"kind": "full", "sub": "content"})
                if inside and scr.grid[y][x][4] is None and scr.grid[y][x] != BLANK and scr.grid[y][x][0] != SENTINEL:
                    raise Violation(f"{what}: text cell under the image at {(x, y)} is {scr.grid[y][x]}", {"kind": "full", "sub": "content"})
        if method != "W":
            exp = sorted((pl, pt + i, iw, 1) for i in range(ih))
            got = sorted(g["placed"][:4] for g in scr.graphics_log if "placed" in g)
            if got != exp:
                raise Violation(f"{what}: graphics footprints {got} != one per image line {exp}", {"kind": "full", "sub": "footprint"})

    # ---- urwid keeps canvases: the same widget is often rendered again at another size (a second view,
    # a thumbnail, flow + box) before an earlier canvas is trimmed; the earlier canvas must still show what
    # it was rendered with.  Done for every other case (a pure function of the case).
    if (c["size"][0] + c["image"]["w"] + c["image"]["h"]) % 2 == 0:
        other = ((W % 7) + 2, (H % 5) + 2)
        if other != (W, H):
            lib(lambda: w.render(other), f"{what}: second render({other})")
            rec.label("rerendered_before_trim")

    # ---- the rectangles to request
    xmarks = sorted({0, pl - 1, pl, pl + 1, pl + iw - 1, pl + iw, pl + iw + 1, W - 1, W})
    ymarks = sorted({0, pt - 1, pt, pt + 1, pt + ih - 1, pt + ih, pt + ih + 1, H - 1, H})
    sampled = []
    for t in c["trims"]:
        tl = pick(t[0], t[1], 0, W - 1, xmarks)
        right = pick(t[2], t[3], tl + 1, W, xmarks)
        tt = pick(t[4], t[5], 0, H - 1, ymarks)
        bottom = pick(t[6], t[7], tt + 1, H, ymarks)
        sampled.append((tl, tt, right - tl, bottom - tt))
    small = W <= 12 and H <= 8
    if small:
        rects = [(tl, tt, cc, rr) for tl in range(W) for cc in range(1, W - tl + 1)
                 for tt in range(H) for rr in range(1, H - tt + 1)]
        via = [False] * len(rects) + [True] * c["composite"]
        rects += sampled[: c["composite"]]
    else:
        rects, via = [], []
        for i, r in enumerate(sampled):
            rects.append(r)
            via.append(i < c["composite"])
        k = 0
        for tl in range(W if W <= 64 else 0):  # every horizontal cut, on short windows taken from the samples
            for cc in range(1, W - tl + 1):
                _, tt, _, rr = sampled[k % N_SAMPLED]
                k += 1
                rects.append((tl, tt, cc, min(rr, 4)))
                via.append(False)
        if H <= 24:
            for tt in range(H):  # every vertical cut, with horizontal cuts taken from the samples
                for rr in range(1, H - tt + 1):
                    tl, _, cc, _ = sampled[k % N_SAMPLED]
                    k += 1
                    rects.append((tl, tt, cc, rr))
                    via.append(False)
    rec.label(f"style:{style}", "flow" if flow else "box", "small_all" if small else "large_sampled", *(["very_wide"] if W > 64 else []),
              f"h:{c['h']}", f"v:{c['v']}", "upscale" if c["upscale"] else "noupscale",
              "hpad" if pl or pr else "nohpad", "vpad" if pt or pb else "novpad",
              "multirun" if any(runs2) else "singlerun", f"profile:{profile}", f"method:{method}")
    if c["bg"] != "none" and c["ident"][0] == "kitty" and style == "block":
        rec.label("kitty_bg_workaround_domain")

    lines = Lines(profile)
    keys = set()
    n_rows = 0
    for (tl, tt, cc, rr), composite in zip(rects, via):
        tr = W - tl - cc
        tw = f"{what}: content(trim_left={tl}, trim_top={tt}, cols={cc}, rows={rr})"
        if composite:
            tw += " via CompositeCanvas"

            def request():
                comp = urwid.CompositeCanvas(canv)
                if tt or rr != H:
                    comp.trim(tt, rr)
                if tl or tr:
                    comp.pad_trim_left_right(-tl, -tr)
                if (comp.cols(), comp.rows()) != (cc, rr):
                    raise Violation(f"{tw}: composite canvas is {comp.cols()}x{comp.rows()}", {"kind": "composite_size"})
                return list(comp.content())
        else:
            a_cols = None if (tl == 0 and tr == 0 and tt % 2) else cc
            a_rows = None if (tt == 0 and rr == H and tl % 2) else rr

            def request():
                if (tl + tt + cc) % 3 == 0 and rr > 1:
                    # an earlier request for the same rectangle was abandoned after its first row (interrupted redraw)
                    g = canv.content(tl, tt, a_cols, a_rows)
                    next(g, None)
                    g.close()
                return list(canv.content(tl, tt, a_cols, a_rows))
        out = lib(request, tw)
        sig = {"kind": "trim", "style": style, "horizontal": bool(tl or tr)}
        if len(out) != rr:
            raise Violation(f"{tw} yields {len(out)} rows", {**sig, "sub": "row_count"})
        n_rows += rr
        for i, row in enumerate(out):
            data = row_bytes(row, tw)
            y = tt + i
            if style != "block" and not (tl or tr):
                if data != full[y]:
                    raise Violation(f"{tw}: row {i} is not line {y} of the untrimmed canvas:\n  got  {data[:200]!r}\n  full {full[y][:200]!r}",
                                    {**sig, "sub": "vertical_lines"})
                continue
            problem, cells, ngfx = lines.run(data, cc)
            if problem:
                raise Violation(f"{tw}: row {i} (canvas line {y}): {problem}; bytes {data[:240]!r}", {**sig, "sub": "row_exec"})
            if style == "block":
                exp = grid[y][tl: tl + cc]
                if cells != exp:
                    x = next(x for x in range(cc) if cells[x] != exp[x])
                    raise Violation(f"{tw}: row {i} column {x} shows (upper, lower)={cells[x]}, but cell {(tl + x, y)} of the "
                                    f"untrimmed canvas shows {exp[x]} (padding l/t/r/b={pl, pt, pr, pb}); bytes {data[:240]!r}",
                                    {**sig, "sub": "crop"})
            else:
                if ngfx or any(cell != (None, None) for cell in cells):
                    raise Violation(f"{tw}: horizontally trimmed graphics row {i} is not {cc} blank cells: {data[:200]!r}",
                                    {**sig, "sub": "graphics_blank"})
        # non-triviality bookkeeping
        lc, rc = edge_class(tl, pl, pl + iw), edge_class(tl + cc, pl, pl + iw)
        tc, bc = edge_class(tt, pt, pt + ih), edge_class(tt + rr, pt, pt + ih)
        if style == "block":
            win = [y for y in range(tt, tt + rr) if runs2[y]]
            if win and (lc == 2 or rc == 2):
                mid = lc == 2 and any(grid[y][tl - 1] == grid[y][tl] for y in win)
                keys.add((style, c["h"], c["v"], lc, rc, tc, bc, mid, composite))
        else:
            if tl or tr or tc == 2 or bc == 2:
                keys.add((style, c["h"], c["v"], lc, rc, tc, bc, method, composite))
    for k in sorted(keys, key=repr):
        rec.nontriv(list(k), sample={"case": {k2: v for k2, v in c.items() if k2 != "trims"}, "cut_class": list(k)})
    rec.count("rectangles", len(rects))
    rec.count("rows_checked", n_rows)
    rec.count("rows_executed", lines.executed)
    if keys:
        rec.label("nontrivial_canvas")
    if any(via):
        rec.label("composite")


# ------------------------------------------------------------------------------ clause: flow rows agreement

def check_flow_rows(c, rec):
    configure(c)
    pil, image, w, spec = build(c)
    try:
        h = c.get("flow_how", 0)
        if h in (1, 3):
            # the width at which the unscaled image just fits (the AUTO/ORIGINAL boundary of a flow widget)
            c = dict(c, size=[max(1, image._valid_size(I.Size.ORIGINAL)[0])])
            rec.label("at_original_width")
        if h in (2, 3):
            # the widget was laid out before, under another cell ratio / cell size
            import term_image

            other = {0.5: 1.0, 1.0: 0.5}.get(c["ratio"], 0.5)
            term_image.set_cell_ratio(other)
            if c["cell"]:
                env.apply(cell=[c["cell"][0] + 1, c["cell"][1] + 3])
            lib(lambda: w.rows(tuple(c["size"])), "rows() under the earlier geometry")
            lib(lambda: w.render(tuple(c["size"])), "render() under the earlier geometry")
            term_image.set_cell_ratio(c["ratio"])
            env.apply(cell=c["cell"])
            w._invalidate()
            urwid.CanvasCache.clear()
            rec.label("prior_geometry")
        what = f"{c['style']} {c['image']['w']}x{c['image']['h']}px spec={spec!r} upscale={c['upscale']} cell={c['cell']} ratio={c['ratio']}"
        canv, W, H, full = render_canvas(c, w, what)
        again = lib(lambda: w.rows(tuple(c["size"])), f"{what}: rows() after render")
        if again != H:
            raise Violation(f"{what}: rows() after rendering says {again}, canvas has {H}", {"kind": "flow_rows"})
        if h in (2, 3):
            pil2, image2, w2, _ = build(c)
            try:
                fresh = lib(lambda: w2.rows(tuple(c["size"])), f"{what}: rows() of a fresh widget")
            finally:
                del w2
                image2.close()
                pil2.close()
            if fresh != H:
                raise Violation(f"{what}: a widget laid out earlier under another cell geometry announces/renders {H} rows for width "
                                f"{c['size'][0]}, a fresh widget announces {fresh}", {"kind": "flow_rows_stale"})
        ori = image._valid_size(I.Size.ORIGINAL)
        fits = ori[0] <= W
        rec.label(f"style:{c['style']}", "upscale" if c["upscale"] else "noupscale", "original_fits" if fits else "shrunk")
        if fits and not c["upscale"]:
            rec.label("noupscale_original_fits")
        rec.nontriv([c["style"], c["upscale"], W, H, fits])
    finally:
        del w
        image.close()
        pil.close()
        UrwidImageCanvas._ti_disguise_state = 0


CLAUSES = [
    Clause("trim", check_trim, canvases, budget={"quick": 1600, "thorough": 40000},
           floors={"style:block": 0.35, "style:kitty": 0.08, "style:iterm2": 0.08, "flow": 0.15, "box": 0.3,
                   "small_all": 0.2, "large_sampled": 0.1, "hpad": 0.25, "vpad": 0.2, "multirun": 0.12,
                   "nontrivial_canvas": 0.4, "composite": 0.5}),
    Clause("flow_rows", check_flow_rows, lambda: canvases(rows_only=True), budget={"quick": 600, "thorough": 20000},
           floors={"noupscale_original_fits": 0.1, "shrunk": 0.05}),
]
