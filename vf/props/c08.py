"""C08 — a render iterator yields exactly the frames its operation history dictates."""

from __future__ import annotations

from hypothesis import strategies as st

from .. import iterlab
from ..core import Clause, Violation

META = {
    "thorough_scale": 3,
    "level": "exploration",
    "rule": (
        "Model-based testing: generated set-ups (definite 2..7 frames / Sub class / INDEFINITE stream of 0..8 "
        "frames; loops in {-1,1,2,3}; cache in {False,True,n-1,n,n+1}; constructors RenderIterator(), iter(), "
        "_from_render_data_(); exact/aligned/relative padding; static/DYNAMIC duration) and op lists (next, seek "
        "START/CURRENT/END with offsets in [-n-2,n+2], set_frame_duration, set_padding, set_render_args "
        "compatible/incompatible, set_render_size, close, renderable.seek, terminal resize) are run in lock-step "
        "against vf.ref.iterator.IterModel; every observation (Frame fields, StopIteration, exception type, loop "
        "countdown, renderable.tell(), and for streams the (frame_offset, seek_whence) handed to the renderable) "
        "must agree. Non-trivial = history with a seek at the end-of-loop position, a setting change between two "
        "renders, or an op after close/exhaustion; distinct by hash of op-kind sequence + flags."
    ),
    "assumptions": [
        "where the docs are silent the model follows the implementation: after the last frame of a loop the next "
        "frame number is frame_count (CURRENT seeks are relative to it) until the next render wraps to 0",
        "expected padded output is built with ExactPadding.pad (validated separately by C05)",
    ],
}

env = P = None


def setup():
    global env, P
    from .. import env as _env, hren

    _env.install()
    import term_image.padding as _P
    import term_image.render  # noqa

    env, P = _env, _P
    hren.classes()


@st.composite
def cases(draw):
    s = draw(iterlab.setups())
    s["finalize"] = draw(st.sampled_from([True, True, False]))  # from_data: does the iterator own the caller's render data
    return {"setup": s, "ops": draw(iterlab.ops(n_hint=s["n"], max_len=30))}


def run_history(case, rec, lab=None):
    from .. import hren

    s = case["setup"]
    H = hren.classes()
    if lab is None:
        env.reset()
        H["forget"]()
        env.apply(cols=s["cols"], rows=s["rows"])
        try:
            lab = iterlab.Lab(s, env)
        except Exception as e:
            raise Violation(f"constructing the iterator for {s} raised {type(e).__name__}: {e}", {"kind": "ctor"})
    m = lab.model()
    r = lab.r
    definite = s["kind"] != "stream"
    r_frame = 0
    flags = set()
    kinds = []
    rendered_since_change = True
    trace = []

    def fail(msg, sig):
        raise Violation(f"{msg}\n  setup={s}\n  trace={trace[-8:]}", sig)

    expanded = []
    for o in case["ops"]:
        if o["op"] == "nexts":
            expanded += [{"op": "next"}] * o["k"]
        else:
            expanded.append(o)
    for o in expanded:
        k = o["op"]
        kinds.append(k)
        if m.closed and k not in ("resize", "tell", "rseek"):
            flags.add("op_after_close")
        if k == "rseek":
            if definite:
                r_frame = o["k"] % s["n"]
                r.seek(r_frame)
            continue
        if k == "resize":
            env.apply(cols=o["cols"], rows=o["rows"])
            m.term = (o["cols"], o["rows"])
            continue
        if k == "decoy":
            for L in (lab,):
                L.decoy()
            continue
        if k == "tell":
            if r.tell() != r_frame:
                fail(f"renderable.tell() == {r.tell()}, expected {r_frame}: the iterator moved the renderable's frame", {"kind": "tell"})
            continue
        if k == "seek" and definite and m.next >= m.n and not m.closed:
            flags.add("seek_at_end")
        if k in ("dur", "pad", "args", "size") and not m.closed:
            if not rendered_since_change:
                flags.add("two_changes")
            flags.add("setting_change")
        before = m.settings_key()
        if k == "next":
            exp = m.op_next()
            if exp[0] == "frame":
                exp = iterlab.expected_frame(m, exp[1], exp[2], P, lab)
                rendered_since_change = True
        elif k == "seek":
            exp = m.op_seek(o["off"], o["whence"])
        elif k == "dur":
            exp = m.op_dur(o["v"])
        elif k == "pad":
            exp = m.op_pad(o["spec"], o["fill"])
        elif k == "size":
            exp = m.op_size(o["w"], o["h"])
        elif k == "args":
            compat = lab.args_compat(o)
            exp = m.op_args(compat, 0 if o["kind"] == "base" else o["salt"], 3 if o["kind"] == "sub" else 0)
        elif k == "close":
            exp = m.op_close()
        if m.settings_key() != before:
            rendered_since_change = False
        obs = lab.do(o)
        trace.append((k, {a: b for a, b in o.items() if a != "op"}, obs[:4] if obs[0] == "frame" else obs))
        if obs[:2] != exp[:2] if exp[0] == "err" else obs != exp:
            fail(f"op {o}: observed {obs[:5]!r}, model expects {exp[:5]!r}",
                 {"kind": "mismatch", "op": k, "exp": exp[0], "obs": obs[0],
                  "relpad": bool(k == "pad" and o["spec"][0] == "aligned" and (o["spec"][1] <= 0 or o["spec"][2] <= 0))})
        if lab.it.loop != m.loop:
            fail(f"after {o}: iterator.loop == {lab.it.loop}, model expects {m.loop}", {"kind": "loop"})
        if r.tell() != r_frame:
            fail(f"after {o}: renderable.tell() == {r.tell()}, expected {r_frame}", {"kind": "tell"})
    if not definite:
        got = [(e[1], e[2]) for e in r.log if e[0] == "render"]
        if got != m.seek_log:
            fail(f"seeks handed to the INDEFINITE renderable {got} != expected {m.seek_log}", {"kind": "seek_log"})
    if any(e[0] == "render_with_finalized_data" for e in r.log):
        fail("a frame was rendered with finalized render data", {"kind": "finalized_use"})
    lab.it.close()
    if lab.caller_data is not None and not lab.caller_data.finalized and definite:
        # render data the caller kept (finalize=False) is used for a second iterator: it starts at frame 0 again,
        # whatever the first iterator was doing when it was closed
        from term_image.render import RenderIterator

        try:
            it2 = RenderIterator._from_render_data_(r, lab.caller_data, None, P.ExactPadding(), 1, False, finalize=False)
            f0 = next(it2)
            it2.close()
        except Exception as e:
            fail(f"a second iterator on the caller's render data raised {type(e).__name__}: {e}", {"kind": "reuse_data"})
        if f0.number != 0:
            fail(f"a second iterator on the caller's render data starts at frame {f0.number}, not 0", {"kind": "reuse_data"})
        flags.add("data_reused")
    return flags, kinds, lab, m


def check_history(case, rec):
    flags, kinds, lab, m = run_history(case, rec)
    s = case["setup"]
    rec.label(f"kind:{s['kind']}", f"ctor:{s['ctor']}", *sorted(flags))
    if flags:
        rec.nontriv([s["kind"], s["ctor"], kinds, sorted(flags), s["loops"]])


# ---------------------------------------------------------------------------------------------- no-seek count

@st.composite
def count_cases(draw):
    s = draw(iterlab.setups(kinds=("grid", "sub"), loops=(1, 2, 3)))
    return {"setup": s}


def check_count(case, rec):
    """Absent seeks, exactly loops x frame_count frames are produced, numbered 0..n-1 per loop."""
    from .. import hren

    s = case["setup"]
    env.reset()
    hren.classes()["forget"]()
    env.apply(cols=s["cols"], rows=s["rows"])
    lab = iterlab.Lab(s, env)
    loops = 1 if s["ctor"] == "iter" else s["loops"]
    exp = list(range(s["n"])) * loops
    nums = []
    for f in lab.it:
        nums.append(f.number)
        if len(nums) > len(exp) + 3:  # never iterate unboundedly inside a check
            break
    if nums != exp:
        raise Violation(f"iterating {s} yields frame numbers {nums}, expected {exp}", {"kind": "count"})
    if lab.it.loop != 0:
        raise Violation(f"loop == {lab.it.loop} after exhaustion", {"kind": "loop"})
    rec.label(f"loops:{loops}")
    rec.nontriv([s["n"], loops, s["cache"] is not False, s["ctor"]])


# ---------------------------------------------------------------------------------------------- constructor validation

def check_ctor(case, rec):
    from term_image.render import RenderIterator

    from .. import hren

    env.reset()
    H = hren.classes()
    H["forget"]()
    loops, cache, animated = case
    r = H["new"]("grid", 2, 1, 3 if animated else 1, 40)
    should_fail = (not animated) or loops == 0 or (cache is not False and cache is not True and cache <= 0)
    try:
        it = RenderIterator(r, None, loops=loops, cache=cache)
        ok = True
        it.close()
    except ValueError:
        ok = False
    except Exception as e:
        raise Violation(f"RenderIterator(loops={loops}, cache={cache}, animated={animated}) raised {type(e).__name__}: {e}")
    if ok == should_fail:
        raise Violation(f"RenderIterator(loops={loops}, cache={cache}, animated={animated}) "
                        f"{'accepted' if ok else 'rejected'}", {"kind": "ctor_validation"})
    undrained = [e for e in r.datas if e[1] != 1]
    if undrained and ok:
        raise Violation("closed iterator left render data un-finalized", {"kind": "finalize"})
    rec.label("rejected" if should_fail else "accepted")
    rec.nontriv(list(map(repr, case)))


CLAUSES = [
    Clause("history", check_history, cases, budget={"quick": 1500, "thorough": 60000},
           floors={"seek_at_end": 0.03, "setting_change": 0.3, "op_after_close": 0.1, "kind:stream": 0.1}),
    Clause("count", check_count, count_cases, budget={"quick": 300, "thorough": 5000}),
    Clause("ctor", check_ctor,
           lambda: st.tuples(st.sampled_from([-2, -1, 0, 1, 2]), st.sampled_from([False, True, -1, 0, 1, 3, 100]), st.booleans()),
           budget={"quick": 100, "thorough": 300}),
]
