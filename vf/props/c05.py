"""C05 — padding and alignment place the render exactly, inside exactly the padded size."""

from __future__ import annotations

import io
import itertools
import sys

from hypothesis import strategies as st

from .. import gen
from ..core import Clause, Violation
from ..ref import padding as R

META = {
    "thorough_scale": 2,
    "level": "exploration",
    "rule": (
        "Differential on the vf.vt terminal model: screen A gets the padded output at (0,y0); screen B gets the "
        "bare render anchored at (left, y0+top) with (left,top,right,bottom) from the reference arithmetic; inside "
        "the render rectangle A==B cell for cell (and placement for placement), every other cell of the padded box "
        "is the fill glyph with default attributes (untouched when fill==''), nothing outside the box changes, "
        "newline count and final cursor match, and get_padded_size/to_exact/resolve agree. Inner renders: glyph "
        "grids, BlockImage (SGR), Kitty/ITerm2 in every quirk identity. APIs: Padding.pad, Renderable.render, "
        "RenderIterator, format(image, spec), image.draw(). Clause enum enumerates a small grid exhaustively. "
        "Non-trivial = some side > 0 and (odd remainder or graphics inner render or empty fill); distinct by "
        "(api, inner kind, alignment pair, sign pattern of the four sides, fill)."
    ),
    "assumptions": ["fill strings occupy exactly one column (documented precondition of Padding)"],
}

I = env = P = G = None
H = None  # harness render classes


def setup():
    global I, env, P, G, H
    from .. import env as _env, hren

    _env.install()
    import term_image.geometry as _G
    import term_image.image as _I
    import term_image.padding as _P

    I, env, P, G = _I, _env, _P, _G
    H = hren.classes()
    import time

    import term_image.image.common as CM

    from ..faults import Proxy

    CM.time = Proxy(time, {"sleep": lambda *_: None})  # animations without real waiting


# ------------------------------------------------------------------------------ inner renders

@st.composite
def inner(draw, max_w=12, max_h=8):
    kind = draw(st.sampled_from(["grid", "grid", "block", "kitty", "iterm2"]))
    W, Hh = draw(st.integers(1, max_w)), draw(st.integers(1, max_h))
    c = {"kind": kind, "W": W, "H": Hh}
    if kind != "grid":
        c["image"] = draw(gen.still_image(max_w=6, max_h=6))
        ident = draw(gen.identity())
        c["ident"] = ident
        c["cell"] = [draw(st.integers(1, 4)), draw(st.integers(1, 6))]
        c["alpha"] = draw(gen.alpha_setting())
        if kind == "kitty":
            c["style_args"] = draw(gen.kitty_style())
        elif kind == "iterm2":
            c["style_args"] = draw(gen.iterm2_style())
        else:
            c["style_args"] = {}
        c["bg"] = draw(st.one_of(st.none(), gen.rgb))
    return c


def make_inner(c):
    """-> (render string, profile).  Configures the identity; terminal size set by caller."""
    from ..hren import grid_text

    if c["kind"] == "grid":
        env.apply(name="", version="")
        return grid_text(c["W"], c["H"], c.get("n", 0)), "other", None
    env.apply(name=c["ident"][0], version=c["ident"][1], cell=c["cell"], bg=c["bg"])
    cls = {"block": I.BlockImage, "kitty": I.KittyImage, "iterm2": I.ITerm2Image}[c["kind"]]
    image = cls(gen.build_image(c["image"]), width=c["W"], height=c["H"])
    sa = {k: v for k, v in c["style_args"].items() if not (k == "method" and v is None)}
    out = image._renderer(image._render_image, c["alpha"], **sa)
    return out, env.model_profile(), image


# ------------------------------------------------------------------------------ oracle

def judge(padded: str, bare: str, W, Hh, sides, fill, cols, rows, y0, profile, what, strict_fill=True, animated=False):
    """Screen A (padded at (0,y0)) vs screen B (bare at (left, y0+top))."""
    from ..vt import DEFAULT_SGR, Screen, anchor, cwidth

    glyph = "".join(ch for ch in fill if cwidth(ch) > 0)  # what the terminal model keeps of a one-column fill string
    left, top, right, bottom = sides
    Wp, Hp = left + W + right, top + Hh + bottom
    if Wp > cols or y0 + Hp > rows:
        raise AssertionError("harness: terminal too small for the padded box")
    A = Screen(cols, rows, profile=profile)
    A.fill("~")
    A.feed(f"\x1b[{y0 + 1};1H")
    A.reset_touched()
    A.feed(padded, onlcr=True)
    B = Screen(cols, rows, profile=profile)
    B.fill("~")
    B.feed(f"\x1b[{y0 + top + 1};{left + 1}H")
    B.reset_touched()
    B.feed(anchor(bare, left), onlcr=True)
    sig = {"what": what}
    if not animated and (padded.count("\n") != Hp - 1 or padded.endswith("\n")):
        raise Violation(f"{what}: padded output has {padded.count(chr(10)) + 1} lines, expected {Hp}", sig)
    badA = [e for e in A.events if e[0] != "stray_st"]
    if badA or not A.in_ground():
        raise Violation(f"{what}: padded output has control-sequence anomalies {badA[:3]} state={A.parser_state()}", sig)
    if A.scrolls:
        raise Violation(f"{what}: padded output scrolled the screen", sig)
    for y in range(rows):
        for x in range(cols):
            in_box = y0 <= y < y0 + Hp and x < Wp
            in_rect = y0 + top <= y < y0 + top + Hh and left <= x < left + W
            a = A.grid[y][x]
            if in_rect:
                if a != B.grid[y][x]:
                    raise Violation(f"{what}: render cell {(x - left, y - y0 - top)} differs after padding: "
                                    f"{a} vs {B.grid[y][x]} (sides {sides}, render {W}x{Hh})", {**sig, "clause": "inner"})
            elif in_box:
                if fill == "":
                    if A.touched[y][x] or a[0] != "~":
                        raise Violation(f"{what}: padding cell {(x, y)} modified although fill is empty", {**sig, "clause": "fill"})
                else:
                    if a != (glyph, None, None, frozenset(), None):
                        raise Violation(f"{what}: padding cell {(x, y - y0)} is {a}, expected fill {fill!r} with default "
                                        f"attributes (sides {sides}, render {W}x{Hh})", {**sig, "clause": "fill"})
            else:
                if A.touched[y][x] or a[0] != "~":
                    raise Violation(f"{what}: cell {(x, y)} outside the padded box {Wp}x{Hp}@y0={y0} was modified "
                                    f"(sides {sides}, render {W}x{Hh})", {**sig, "clause": "outside"})
    pa = sorted((p.x, p.y, p.c, p.r, p.z, p.digest, p.proto) for p in A.placements)
    pb = sorted((p.x, p.y, p.c, p.r, p.z, p.digest, p.proto) for p in B.placements)
    if pa != pb:
        raise Violation(f"{what}: graphics placements differ after padding: {pa} vs {pb}", {**sig, "clause": "inner"})
    ex, ey = min(Wp, cols - 1), y0 + Hp - 1
    if (A.x, A.y) != (ex, ey):
        raise Violation(f"{what}: cursor ends at {(A.x, A.y)}, expected {(ex, ey)} (box {Wp}x{Hp}, sides {sides})", {**sig, "clause": "cursor"})
    if A.sgr != DEFAULT_SGR:
        raise Violation(f"{what}: attributes not reset after padded output", sig)


def note(rec, api, kind, sides, fill, ha, va, odd):
    left, top, right, bottom = sides
    rec.label(f"api:{api}", f"inner:{kind}", "fill:" + ("empty" if fill == "" else "space" if fill == " " else "other"),
              "padded" if any(sides) else "nopad")
    if any(sides) and (odd or kind not in ("grid",) or fill == ""):
        rec.nontriv([api, kind, ha, va, [int(s > 0) for s in sides], fill])


# ------------------------------------------------------------------------------ clause: pad

FILLS = [" ", " ", "#", "", "·", "e\u0301"]  # the last: one column made of two code points (base + combining mark)


@st.composite
def pad_cases(draw):
    c = {"inner": draw(inner())}
    kind = draw(st.sampled_from(["aligned", "aligned", "exact"]))
    c["cols"], c["rows"] = draw(st.integers(1, 40)), draw(st.integers(1, 24))
    c["fill"] = draw(st.sampled_from(FILLS))
    if kind == "aligned":
        c["pad"] = ["aligned", draw(st.integers(-6, 30)), draw(st.integers(-6, 16)),
                    draw(st.integers(0, 2)), draw(st.integers(0, 2))]
    else:
        c["pad"] = ["exact"] + [draw(st.sampled_from([0, 0, 1, 2, 3, 6])) for _ in range(4)]
    c["y0"] = draw(st.sampled_from([0, 0, 1, 3]))
    return c


def build_padding(spec, fill):
    if spec[0] == "aligned":
        return P.AlignedPadding(spec[1], spec[2], P.HAlign(spec[3]), P.VAlign(spec[4]), fill)
    return P.ExactPadding(*spec[1:5], fill)


def ref_sides(spec, W, Hh, cols, rows):
    if spec[0] == "exact":
        return tuple(spec[1:5])
    mw, mh = R.resolve(spec[1], cols), R.resolve(spec[2], rows)
    return R.aligned((W, Hh), (mw, mh), spec[3], spec[4])


def fit_terminal(c, sides, W, Hh):
    """The terminal must hold the padded box; relative dimensions depend on the terminal size, so
    grow the terminal only for absolute/exact paddings, else report 'nofit'."""
    left, top, right, bottom = sides
    return left + W + right <= env.CFG.cols and c["y0"] + top + Hh + bottom <= env.CFG.rows



HELD_NOPAD = []  # a "no padding" instance obtained once per process and kept (as an application would)


def rejected_then_decoy(spec, cols, rows, rec):
    """(1) constructions the documentation rejects must not leave anything behind: a no-padding instance obtained
    earlier still pads nothing.  (2) a short-lived padding of another shape is created, resolved and dropped just
    before the real one is created (CPython tends to give the real one the same address)."""
    from term_image.geometry import Size

    if not HELD_NOPAD:
        HELD_NOPAD.append(P.ExactPadding())
    for bad in ((2, 0, -2, 0), (0, 1, 0, -1), (-1, 0, 1, 0), (0, -3, 0, 3)):
        try:
            P.ExactPadding(*bad)
        except ValueError:
            pass
        else:
            raise Violation(f"ExactPadding{bad} was accepted", {"clause": "ctor_validation"})
    held = HELD_NOPAD[0]
    if (held.left, held.top, held.right, held.bottom) != (0, 0, 0, 0) or tuple(held.get_padded_size(Size(3, 2))) != (3, 2) \
            or held.pad("ab\ncd", Size(2, 2)) != "ab\ncd":
        raise Violation(f"a no-padding ExactPadding obtained earlier now reads {held!r} / pads 3x2 to "
                        f"{tuple(held.get_padded_size(Size(3, 2)))} after rejected constructions", {"clause": "nopad_corrupted"})
    if spec[0] == "aligned":
        decoy = P.AlignedPadding(-1 if spec[1] != -1 else -2, -2 if spec[2] != -2 else -1, P.HAlign(spec[3]), P.VAlign(spec[4]), "#")
        decoy.resolve(Size(cols, rows))
        decoy.get_padded_size(Size(1, 1)) if not decoy.relative else None
        del decoy
        rec.label("decoy_padding")

def check_pad(c, rec):
    env.reset()
    inn = c["inner"]
    W, Hh = inn["W"], inn["H"]
    spec = c["pad"]
    cols, rows = c["cols"], c["rows"]
    relative = spec[0] == "aligned" and (spec[1] <= 0 or spec[2] <= 0)
    if not relative:
        s0 = ref_sides(spec, W, Hh, cols, rows)
        cols = max(cols, s0[0] + W + s0[2])
        rows = max(rows, c["y0"] + s0[1] + Hh + s0[3])
    env.apply(cols=cols, rows=rows)
    bare, profile, image = make_inner(inn)
    fill = c["fill"]
    rejected_then_decoy(spec, cols, rows, rec)
    padding = build_padding(spec, fill)
    size = G.Size(W, Hh)
    sides = ref_sides(spec, W, Hh, cols, rows)
    what = f"{type(padding).__name__}{tuple(spec[1:])} fill={fill!r} on {inn['kind']} {W}x{Hh} term {cols}x{rows}"
    if relative:
        # documented: every operation other than resolve() raises on relative dimensions
        for name, fn in (("pad", lambda: padding.pad(bare, size)), ("get_padded_size", lambda: padding.get_padded_size(size)),
                         ("to_exact", lambda: padding.to_exact(size))):
            try:
                fn()
            except P.RelativePaddingDimensionError:
                continue
            except Exception as e:
                raise Violation(f"{what}: {name}() on relative padding raised {type(e).__name__}: {e}", {"clause": "relative"})
            raise Violation(f"{what}: {name}() on relative padding did not raise RelativePaddingDimensionError", {"clause": "relative"})
        if not padding.relative:
            raise Violation(f"{what}: .relative is False", {"clause": "relative"})
        import os

        resolved = padding.resolve(os.terminal_size((cols, rows)))
        exp = (R.resolve(spec[1], cols), R.resolve(spec[2], rows))
        if (resolved.width, resolved.height) != exp or resolved.relative or \
                (resolved.h_align, resolved.v_align, resolved.fill) != (padding.h_align, padding.v_align, fill):
            raise Violation(f"{what}: resolve() -> {resolved!r}, expected minimum {exp}", {"clause": "resolve"})
        padding = resolved
        rec.label("relative")
    elif spec[0] == "aligned":
        import os

        if padding.resolve(os.terminal_size((cols, rows))) != padding or padding.relative:
            raise Violation(f"{what}: resolve() changed an absolute padding", {"clause": "resolve"})
    left, top, right, bottom = sides
    if left + W + right > cols or c["y0"] + top + Hh + bottom > rows:
        rec.label("nofit")
        return
    try:
        padded = padding.pad(bare, size)
        psize = padding.get_padded_size(size)
        exact = padding.to_exact(size)
    except Exception as e:
        raise Violation(f"{what}: raised {type(e).__name__}: {e}", {"clause": "exception"})
    exp_size = (left + W + right, top + Hh + bottom)
    if tuple(psize) != exp_size:
        raise Violation(f"{what}: get_padded_size {tuple(psize)} != expected {exp_size}", {"clause": "size"})
    if tuple(exact.dimensions) != tuple(sides) or exact.fill != fill:
        raise Violation(f"{what}: to_exact().dimensions {exact.dimensions} != expected {sides}", {"clause": "to_exact"})
    if exact.pad(bare, size) != padded:
        raise Violation(f"{what}: to_exact(size).pad() differs from pad()", {"clause": "to_exact"})
    if not any(sides) and padded != bare:
        raise Violation(f"{what}: padding without effect altered the render", {"clause": "noeffect"})
    if spec[0] == "aligned":
        # an axis whose minimum <= render dimension behaves as if that minimum were 1
        mw, mh = padding.width, padding.height
        if mw <= W or mh <= Hh:
            alt = P.AlignedPadding(1 if mw <= W else mw, 1 if mh <= Hh else mh, padding.h_align, padding.v_align, fill)
            if alt.pad(bare, size) != padded:
                raise Violation(f"{what}: minimum <= render dimension on an axis still affects the output", {"clause": "noeffect"})
    judge(padded, bare, W, Hh, sides, fill, cols, rows, c["y0"], profile, what)
    odd = (left != right and spec[0] == "aligned") or (top != bottom and spec[0] == "aligned")
    note(rec, "pad", inn["kind"], sides, fill, spec[3] if spec[0] == "aligned" else "x", spec[4] if spec[0] == "aligned" else "x", odd)
    if image is not None:
        image.close()


# ------------------------------------------------------------------------------ clause: enum (exhaustive small grid)

def enum_params(tier):
    if tier == "quick":
        return range(1, 4), range(1, 3), range(-2, 6)
    return range(1, 7), range(1, 5), range(-3, 10)


def enum_size(tier):
    ws, hs, ps = enum_params(tier)
    return len(ws) * len(hs) * len(ps) ** 2 * 9 * 3


def enum_cases(tier, shard, nshards):
    ws, hs, ps = enum_params(tier)
    i = 0
    for W, Hh, pw, ph, ha, va, fill in itertools.product(ws, hs, ps, ps, range(3), range(3), (" ", "#", "")):
        if i % nshards == shard:
            yield (W, Hh, pw, ph, ha, va, fill)
        i += 1


def check_enum(case, rec):
    from ..hren import grid_text
    import os

    W, Hh, pw, ph, ha, va, fill = case
    cols, rows = 12, 10
    if rec.evaluations <= 1:
        env.reset()
        env.apply(cols=cols, rows=rows)
    bare = grid_text(W, Hh)
    padding = P.AlignedPadding(pw, ph, P.HAlign(ha), P.VAlign(va), fill)
    if padding.relative:
        padding = padding.resolve(os.terminal_size((cols, rows)))
    sides = R.aligned((W, Hh), (R.resolve(pw, cols), R.resolve(ph, rows)), ha, va)
    size = G.Size(W, Hh)
    padded = padding.pad(bare, size)
    what = f"AlignedPadding({pw},{ph},{ha},{va},{fill!r}) on grid {W}x{Hh}"
    if tuple(padding.get_padded_size(size)) != (sides[0] + W + sides[2], sides[1] + Hh + sides[3]):
        raise Violation(f"{what}: get_padded_size {tuple(padding.get_padded_size(size))}", {"clause": "size"})
    if tuple(padding.to_exact(size).dimensions) != tuple(sides):
        raise Violation(f"{what}: to_exact {padding.to_exact(size).dimensions} != {sides}", {"clause": "to_exact"})
    judge(padded, bare, W, Hh, sides, fill, cols, rows, 0, "other", what)
    if any(sides):
        rec.nontriv_disjoint(list(case) if (sides[0] != sides[2] and ha == 1) else None)


# ------------------------------------------------------------------------------ clause: renderable / iterator APIs

@st.composite
def api_cases(draw):
    c = {
        "W": draw(st.integers(1, 10)), "H": draw(st.integers(1, 6)),
        "cols": draw(st.integers(1, 40)), "rows": draw(st.integers(1, 24)),
        "fill": draw(st.sampled_from(FILLS)),
        "api": draw(st.sampled_from(["render", "iter", "iter_set_padding", "iter_resized"])),
        # iter_resized: the iterator's own render size (set with set_render_size) differs from the renderable's
        "twin": draw(st.booleans()),
        "W0": draw(st.integers(1, 10)), "H0": draw(st.integers(1, 6)), "size_first": draw(st.booleans()),
        "frames": draw(st.integers(2, 4)), "advance": draw(st.integers(0, 5)),
        # iterators: once set up, a set_padding() with a relative padding whose resolution fails is attempted
        "rejected_set": draw(st.booleans()),
    }
    if draw(st.booleans()):
        c["pad"] = ["aligned", draw(st.integers(-6, 30)), draw(st.integers(-6, 16)), draw(st.integers(0, 2)), draw(st.integers(0, 2))]
    else:
        c["pad"] = ["exact"] + [draw(st.sampled_from([0, 0, 1, 2, 5])) for _ in range(4)]
    return c


def check_api(c, rec):
    from term_image.render import RenderIterator

    from ..hren import grid_text

    env.reset()
    H["forget"]()
    W, Hh, spec, fill = c["W"], c["H"], c["pad"], c["fill"]
    cols, rows = c["cols"], c["rows"]
    relative = spec[0] == "aligned" and (spec[1] <= 0 or spec[2] <= 0)
    if not relative:
        s0 = ref_sides(spec, W, Hh, cols, rows)
        cols, rows = max(cols, s0[0] + W + s0[2]), max(rows, s0[1] + Hh + s0[3])
    env.apply(cols=cols, rows=rows)
    sides = ref_sides(spec, W, Hh, cols, rows)
    left, top, right, bottom = sides
    if left + W + right > cols or top + Hh + bottom > rows:
        rec.label("nofit")
        return
    rejected_then_decoy(spec, cols, rows, rec)
    padding = build_padding(spec, fill)
    api = c["api"]
    what = f"{api} padding={padding!r} render {W}x{Hh} term {cols}x{rows}"
    n = 0
    try:
        if api == "render":
            r = H["new"]("grid", W, Hh)
            frame = r.render(None, padding)
        else:
            r = H["new"]("grid", W, Hh, c["frames"], 40)
            if api == "iter":
                it = RenderIterator(r, None, padding, loops=2, cache=c["advance"] % 2 == 0)
            elif api == "iter_resized":
                from term_image.geometry import Size as _Size

                r = H["new"]("grid", c.get("W0", 1), c.get("H0", 1), c["frames"], 40)
                it = RenderIterator(r, None, P.ExactPadding(1, 0, 0, 1), loops=2, cache=c["advance"] % 2 == 0)
                if c.get("size_first", True):
                    it.set_render_size(_Size(W, Hh))
                    it.set_padding(padding)
                else:
                    it.set_padding(padding)
                    it.set_render_size(_Size(W, Hh))
            else:
                first = P.ExactPadding(1, 0, 0, 1)
                if c.get("twin"):
                    # a padding of the same padded size but another layout (alignment / margins swapped, other fill)
                    tw = (["aligned", spec[1], spec[2], (spec[3] + 1) % 3, (spec[4] + 2) % 3] if spec[0] == "aligned"
                          else ["exact", spec[3], spec[4], spec[1], spec[2]])
                    first = build_padding(tw, "+" if fill != "+" else " ")
                it = RenderIterator(r, None, first, loops=2, cache=c["advance"] % 2 == 0)
                next(it)
                it.set_padding(padding)
            if c.get("rejected_set"):
                class _Rejected(Exception):
                    pass

                class BadResolve(P.AlignedPadding):
                    def resolve(self, terminal_size):
                        raise _Rejected("cannot be resolved")

                try:
                    it.set_padding(BadResolve(-1, 0, fill="!"))
                except _Rejected:
                    rec.label("rejected_set_padding")
                else:
                    raise Violation(f"{what}: set_padding() with a relative padding whose resolve() raises did not raise",
                                    {"clause": "rejected_set", "api": api})
                what += " [after a rejected set_padding()]"
            frame = None
            for _ in range(c["advance"] % (c["frames"] + 1) + 1):
                frame = next(it)
            n = frame.number
            it.close()
    except Exception as e:
        raise Violation(f"{what}: raised {type(e).__name__}: {e}", {"clause": "exception", "api": api,
                                                                  "relative": relative})
    exp_size = (left + W + right, top + Hh + bottom)
    if tuple(frame.render_size) != exp_size:
        raise Violation(f"{what}: Frame.render_size {tuple(frame.render_size)} != expected {exp_size}", {"clause": "size", "api": api})
    bare = grid_text(W, Hh, n)
    if not any(sides) and frame.render_output != bare:
        raise Violation(f"{what}: padding without effect altered the render", {"clause": "noeffect"})
    judge(frame.render_output, bare, W, Hh, sides, fill, cols, rows, 0, "other", what)
    note(rec, api, "grid", sides, fill, spec[3] if spec[0] == "aligned" else "x", spec[4] if spec[0] == "aligned" else "x",
         left != right or top != bottom)
    if relative:
        rec.label("relative")


# ------------------------------------------------------------------------------ clause: old API (format / draw)

@st.composite
def fmt_cases(draw):
    c = {"inner": draw(inner(max_w=10, max_h=6).filter(lambda i: i["kind"] != "grid"))}
    c["cols"], c["rows"] = draw(st.integers(1, 40)), draw(st.integers(3, 24))
    c["h_align"] = draw(st.sampled_from([None, "<", "|", ">"]))
    c["v_align"] = draw(st.sampled_from([None, "^", "-", "_"]))
    c["pw"] = draw(st.one_of(st.none(), st.integers(0, 30)))
    c["ph"] = draw(st.one_of(st.none(), st.integers(0, 16)))
    c["api"] = draw(st.sampled_from(["format", "draw", "draw_names"]))
    if draw(st.booleans()):
        c["prior_size"] = [draw(st.integers(1, 12)), draw(st.integers(1, 8))]
    if c["inner"]["kind"] == "block" and c["api"] != "format" and draw(st.booleans()):
        # an animation drawn with the same padding parameters: the final screen is the last frame, padded
        c["anim"] = draw(gen.anim_image(max_frames=3, max_w=4, max_h=4, fmts=("GIF",)))
        c["repeat"] = draw(st.sampled_from([1, 2]))
    return c


def check_fmt(c, rec):
    from ..ref.fmtspec import resolve_pad

    env.reset()
    inn = c["inner"]
    W, Hh = inn["W"], inn["H"]
    cols, rows = c["cols"], c["rows"]
    env.apply(cols=cols, rows=rows)
    pw, ph = resolve_pad(c["pw"], c["ph"], cols, rows)
    if pw > cols or ph > rows:
        if c["pw"] and c["pw"] > cols:
            cols = c["pw"]
        if c["ph"] and c["ph"] > rows:
            rows = c["ph"]
        env.apply(cols=cols, rows=rows)
        pw, ph = resolve_pad(c["pw"], c["ph"], cols, rows)
    sides = R.aligned((W, Hh), (pw, ph), R.H_CHARS[c["h_align"]], R.V_CHARS[c["v_align"]])
    left, top, right, bottom = sides
    if left + W + right > cols or top + Hh + bottom > rows:
        rec.label("nofit")
        return
    bare, profile, image = make_inner(inn)
    sa = {k: v for k, v in inn["style_args"].items() if not (k == "method" and v is None)}
    sa.pop("blend", None)
    anim = c.get("anim")
    if anim:
        image.close()
        image = I.BlockImage.from_file(gen.anim_file(anim), width=W, height=Hh)
        image.seek(anim["n"] - 1)
        bare = image._renderer(image._render_image, inn["alpha"])
        image.seek(0)
    else:
        bare = image._renderer(image._render_image, inn["alpha"], **sa)
    api = c["api"]
    what = f"{api} h={c['h_align']!r} w={c['pw']} v={c['v_align']!r} h={c['ph']} on {inn['kind']} {W}x{Hh} term {cols}x{rows}"
    if c.get("prior_size") and not anim:
        # the same instance was formatted before, at another size, with the same padding parameters
        pwid, phgt = c["prior_size"]
        try:
            image.set_size(pwid, phgt)
            pspec = ("" if c["pw"] is None else str(c["pw"])) + ("" if c["ph"] is None else "." + str(c["ph"]))
            format(image, pspec)
        except Exception:
            pass
        image.set_size(W, Hh)
        what += f" (same instance formatted before at {pwid}x{phgt})"
        rec.label("prior_size")
    try:
        if api == "format":
            a = inn["alpha"]
            if a is None:
                aspec = "#"
            elif isinstance(a, float):
                aspec = "#" + format(a, ".17f")[1:]
                bare = image._renderer(image._render_image, float(aspec[1:]), **sa)
            elif a == "#":
                aspec = "##"
            else:
                aspec = a
            t = ""
            m = sa.get("method")
            if m:
                t += {"lines": "L", "whole": "W", "anim": "A"}[m.lower()]
            if "z_index" in sa:
                t += f"z{sa['z_index']}"
            if "mix" in sa:
                t += f"m{int(sa['mix'])}"
            if "compress" in sa:
                t += f"c{sa['compress']}"
            spec = (c["h_align"] or "") + ("" if c["pw"] is None else str(c["pw"]))
            if c["v_align"] is not None or c["ph"] is not None:
                spec += "." + (c["v_align"] or "") + ("" if c["ph"] is None else str(c["ph"]))
            spec += aspec + ("+" + t if t else "")
            out = format(image, spec)
            what += f" spec={spec!r}"
        else:
            names = {"<": "left", "|": "center", ">": "right", "^": "top", "-": "middle", "_": "bottom", None: None}
            ha, va = c["h_align"], c["v_align"]
            if api == "draw_names":
                ha, va = names[ha], names[va]
            cap = io.StringIO()
            real = sys.stdout
            sys.stdout = cap
            try:
                image.draw(ha, 0 if c["pw"] is None else c["pw"], va, -2 if c["ph"] is None else c["ph"],
                           inn["alpha"], check_size=False, scroll=True, repeat=c.get("repeat", 1), **sa)
            finally:
                sys.stdout = real
            out = cap.getvalue()
            if not out.endswith("\x1b[m\n"):
                raise Violation(f"{what}: draw() output does not end with SGR reset + newline", {"clause": "draw_tail"})
            out = out[: -len("\x1b[m\n")]
    except Violation:
        raise
    except Exception as e:
        raise Violation(f"{what}: raised {type(e).__name__}: {e}", {"clause": "exception", "api": api})
    if not any(sides) and out != bare and not anim:
        raise Violation(f"{what}: padding without effect altered the render", {"clause": "noeffect"})
    judge(out, bare, W, Hh, sides, " ", cols, rows, 0, profile, what, animated=bool(anim))
    if anim:
        rec.label("animated_draw")
    note(rec, api, inn["kind"], sides, " ", c["h_align"], c["v_align"], left != right or top != bottom)
    image.close()


# ------------------------------------------------------------------------------ clause: validation

def check_exact_validation(case, rec):
    dims = case
    try:
        p = P.ExactPadding(*dims)
        ok = True
    except ValueError:
        ok = False
    except Exception as e:
        raise Violation(f"ExactPadding{tuple(dims)} raised {type(e).__name__}: {e}")
    if ok != all(d >= 0 for d in dims):
        raise Violation(f"ExactPadding{tuple(dims)} {'accepted' if ok else 'rejected'}")
    if ok and tuple(p.dimensions) != tuple(dims):
        raise Violation(f"ExactPadding{tuple(dims)}.dimensions == {p.dimensions}")
    rec.label("ok" if ok else "rejected")
    if not ok:
        rec.nontriv(list(dims))


CLAUSES = [
    Clause("pad", check_pad, pad_cases, budget={"quick": 3000, "thorough": 80000},
           floors={"padded": 0.4, "relative": 0.05, "inner:kitty": 0.08, "inner:iterm2": 0.08, "fill:empty": 0.08}),
    Clause("enum", check_enum, None, enumerate=enum_cases, enum_size=enum_size, enum_sharded=True),
    Clause("api", check_api, api_cases, budget={"quick": 1500, "thorough": 30000}, floors={"padded": 0.4}),
    Clause("old_api", check_fmt, fmt_cases, budget={"quick": 1500, "thorough": 30000}, floors={"padded": 0.3}),
    Clause("exact_validation", check_exact_validation,
           lambda: st.lists(st.integers(-3, 5), min_size=4, max_size=4), budget={"quick": 200, "thorough": 700}),
]
