"""C01 — a render output occupies exactly its advertised columns x lines rectangle."""

from __future__ import annotations

from hypothesis import strategies as st

from .. import gen
from ..core import Clause, Violation

META = {
    "thorough_scale": 4,
    "level": "exploration",
    "rule": (
        "Hypothesis-generated (source image incl. animated frames, style, method, style args, alpha, "
        "size in cells, terminal size/cell size/identity, start position). The render is executed on the "
        "vf.vt terminal model at (x0,y0), anchored with CUF(x0) after each newline, on a screen pre-filled with "
        "sentinel cells. Judged: exactly the W x H rectangle advertised by rendered_size changed and every cell of it "
        "is covered (glyph/colour write or graphics placement), nothing outside it changed, no scroll, no autowrap, "
        "cursor on the last line just past the last column (at the margin when the rectangle reaches it), SGR "
        "reset, exactly H-1 newlines and no trailing one, parser back in ground state with every control string "
        "and kitty chunk series complete and every compressed payload inflatable. A 'prior' step renders/measures "
        "the same image under another terminal configuration first; a boundary family pins kitty payloads to "
        "exact multiples of the 4096-character chunk size (and one pixel off). Non-trivial = multi-line "
        "render or x0>0 or contact with the right margin/bottom row; distinct by (style, method, identity "
        "class, W, H, right-contact, bottom-contact, alpha kind, entry point)."
    ),
    "assumptions": [
        "a render is placed at column x0>0 by CUF(x0) after each newline, as Padding.pad/_format_render do",
        "iTerm2 inline images leave the cursor just right of the image on its last row unless doNotMoveCursor=1",
    ],
}

I = None  # term_image.image, set by setup()
env = None


def setup():
    global I, env
    from .. import env as _env

    _env.install()
    import term_image.image as _I

    I, env = _I, _env


# ------------------------------------------------------------------------ generation

SIZE_ENUM = ["FIT", "AUTO", "ORIGINAL", "FIT_TO_WIDTH"]
slack = st.sampled_from([0, 0, 0, 1, 2, 5])


@st.composite
def boundary_cases(draw):
    """Kitty renders whose raw payload per transmission is an exact multiple of 3072 bytes (base64 length
    an exact multiple of the 4096-character chunk size) or one pixel off: the chunk-framing edge."""
    method = draw(st.sampled_from(["lines", "whole"]))
    k = draw(st.integers(1, 3))
    off = draw(st.sampled_from([0, 0, 0, -1, 1]))
    opaque = draw(st.booleans())
    ident = draw(st.sampled_from([["kitty", "0.26.5"], ["konsole", "22.04.0"], ["", ""]]))
    if method == "lines":
        # strip = (W*8) x 16 px; RGB: W*8*16*3 = 3072*(W/8) bytes; RGBA: W*8*16*4 = 4096*(W/8)... use W multiple of 6
        W = 8 * k + off if opaque else 6 * k + off
        W = max(1, W)
        H = draw(st.integers(1, 3))
        img = {"mode": "RGB" if opaque else "RGBA", "w": 4, "h": 4, "palette": [[10, 20, 30, 255], [200, 100, 50, 128 if not opaque else 255]],
               "idx": [i % 2 for i in range(16)]}
        size = ["manual", W, H]
    else:
        # WHOLE transmits min(source, render) pixels: a 32 x (32k/.. ) RGB source = 3072*k bytes
        w, h = (32, 32 * k) if opaque else (32, 24 * k)
        h = max(1, h + off)
        img = {"mode": "RGB" if opaque else "RGBA", "w": w, "h": h, "palette": [[10, 20, 30, 255], [200, 100, 50, 255 if opaque else 77]],
               "idx": [(i // 3) % 2 for i in range(w * h)]}
        size = ["manual", draw(st.integers(4, 6)), draw(st.integers(2 * k + 1, 2 * k + 3))]
    return {
        "style": "kitty", "source": {"kind": "pil", "image": img},
        "cfg": {"name": ident[0], "version": ident[1], "cell": [8, 16], "fg": None, "bg": None, "cols": 40, "rows": 12},
        "size": size, "entry": "renderer", "slack": [draw(slack), draw(slack), draw(slack), draw(slack)], "ratio": 0.5,
        "alpha": None if opaque else 0.5, "style_args": {"method": method, "compress": 0, "mix": draw(st.booleans())},
        "boundary": True,
    }


@st.composite
def cases(draw):
    if draw(st.integers(0, 11)) == 0:
        return draw(boundary_cases())
    style = draw(st.sampled_from(["block", "kitty", "iterm2"]))
    animated = draw(st.integers(0, 4)) == 0
    if animated:
        img = draw(gen.anim_image())
        src = {"kind": draw(st.sampled_from(["anim_file", "anim_pil"])), "image": img,
               "frame": draw(st.integers(0, img["n"] - 1))}
    else:
        img = draw(gen.still_image(max_w=10, max_h=10))
        src = {"kind": draw(st.sampled_from(["pil", "pil", "file"])), "image": img}
    ident = draw(gen.identity())
    cfg = {
        "name": ident[0], "version": ident[1],
        "cell": draw(st.one_of(st.none(), st.tuples(st.integers(1, 8), st.integers(1, 16)).map(list))),
        "fg": draw(st.one_of(st.none(), gen.rgb)),
        "bg": draw(st.one_of(st.none(), gen.rgb)),
        "cols": draw(st.integers(1, 60)), "rows": draw(st.integers(3, 30)),
    }
    kind = draw(st.sampled_from(["manual", "manual", "manual", "width", "height", "dynamic", "fixed_auto"]))
    if kind == "manual":
        size = ["manual", draw(st.integers(1, 24)), draw(st.integers(1, 10))]
    elif kind == "width":
        size = ["width", draw(st.integers(1, 24))]
    elif kind == "height":
        size = ["height", draw(st.integers(1, 10))]
    else:
        size = [kind, draw(st.sampled_from(SIZE_ENUM))]
    entry = draw(st.sampled_from(["str", "format", "renderer", "renderer"]))
    case = {
        "style": style, "source": src, "cfg": cfg, "size": size, "entry": entry,
        "slack": [draw(slack), draw(slack), draw(slack), draw(slack)],
        "ratio": draw(st.sampled_from([0.5, 0.5, 1.0, 0.3, 2.0])),
        "detect": draw(st.sampled_from([False, False, True])),
        # an earlier render of the same image through the same entry point is interrupted at a generated point
        "abort": draw(st.one_of(st.none(), st.none(), st.none(), st.floats(0.0, 0.999, allow_nan=False))),
        # the image is an instance of a user subclass of the style class (with "detect": support is detected through
        # the subclass, the style class itself never having been asked)
        "subclass": draw(st.integers(0, 3)) == 0,
    }
    if case["subclass"] and draw(st.integers(0, 2)) > 0:
        case["detect"] = True  # detection through the subclass is what a subclass changes
        if style == "iterm2" and draw(st.booleans()):
            ident = draw(st.sampled_from([["konsole", "22.04.0"], ["wezterm", "20230712"], ["iterm2", "3.4.19"]]))
            cfg["name"], cfg["version"] = ident
        elif style == "kitty" and draw(st.booleans()):
            ident = draw(st.sampled_from([["kitty", "0.25.0"], ["kitty", "0.26.5"], ["konsole", "22.04.0"]]))
            cfg["name"], cfg["version"] = ident
    if entry == "str":
        case["alpha"] = 40 / 255
        case["style_args"] = {}
    else:
        if entry == "format":
            case["alpha"] = draw(st.sampled_from([None, 0.0, 0.5, 0.25, 0.999, "#", "#000000", "#ffffff", "#7f10c0"]))
        else:
            case["alpha"] = draw(gen.alpha_setting())
        if style == "kitty":
            case["style_args"] = draw(gen.kitty_style(allow_blend=entry == "renderer"))
        elif style == "iterm2":
            case["style_args"] = draw(gen.iterm2_style())
        else:
            case["style_args"] = {}
    if kind == "dynamic" and draw(st.booleans()):
        # the same image object was first used under another cell ratio / cell size at the same terminal size
        case["prior"] = {"ratio": draw(st.sampled_from([0.5, 1.0, 0.25, 2.0])),
                         "cell": draw(st.one_of(st.none(), st.tuples(st.integers(1, 8), st.integers(1, 16)).map(list))),
                         "render": draw(st.booleans())}
    if style == "iterm2":
        case["jpeg"] = draw(st.sampled_from(["unset", "unset", -1, 0, 50, 95]))
        case["rff"] = draw(st.sampled_from(["unset", True, False]))
    return case


def fmt_spec(case):
    a = case["alpha"]
    if a is None:
        s = "#"
    elif isinstance(a, float):
        s = "#" + repr(a)[1:] if a != 40 / 255 else ""
    elif a == "#":
        s = "##"
    else:
        s = a
    sa = case["style_args"]
    t = ""
    m = sa.get("method")
    if m:
        t += {"lines": "L", "whole": "W", "anim": "A"}[m.lower()]
    if "z_index" in sa:
        t += f"z{sa['z_index']}"
    if "mix" in sa:
        t += f"m{int(sa['mix'])}"
    if "compress" in sa:
        t += f"c{sa['compress']}"
    return "1.1" + s + ("+" + t if t else "")


# ------------------------------------------------------------------------ execution

def make_image(case):
    from PIL import Image

    cls = {"block": I.BlockImage, "kitty": I.KittyImage, "iterm2": I.ITerm2Image}[case["style"]]
    if case.get("subclass"):
        cls = type(cls)("Sub" + cls.__name__, (cls,), {})
    src = case["source"]
    pil = None
    if src["kind"] == "pil":
        pil = gen.build_image(src["image"])
        image = cls(pil)
    elif src["kind"] == "file":
        image = cls.from_file(gen.still_file(src["image"]))
    elif src["kind"] == "anim_file":
        image = cls.from_file(gen.anim_file(src["image"]))
    else:
        pil = Image.open(gen.anim_file(src["image"]))
        image = cls(pil)
    if "frame" in src:
        image.seek(src["frame"])
    return image, pil


def check_render(case, rec):
    from ..vt import Screen, anchor, DEFAULT_SGR

    env.reset()
    import term_image

    term_image.set_cell_ratio(case["ratio"])
    # "detect": the classes start undetected and the library's own is_supported() runs at construction (support is
    # forced so that every identity can be instantiated), instead of the harness pre-setting the detected state
    env.apply(detect=bool(case.get("detect")), **case["cfg"])
    if case.get("detect"):
        rec.label("library_detects_terminal")
    image, pil = make_image(case)
    try:
        _check(case, rec, image, Screen, anchor, DEFAULT_SGR)
    finally:
        image.close()
        if pil is not None:
            pil.close()


def _check(case, rec, image, Screen, anchor, DEFAULT_SGR):
    style = case["style"]
    if style == "iterm2":
        if case.get("jpeg", "unset") != "unset":
            image.jpeg_quality = case["jpeg"]
        if case.get("rff", "unset") != "unset":
            image.read_from_file = case["rff"]
    S = I.Size
    sz = case["size"]
    if sz[0] == "manual":
        image.set_size(sz[1], sz[2])
    elif sz[0] == "width":
        image.set_size(width=sz[1])
    elif sz[0] == "height":
        image.set_size(height=sz[1])
    elif sz[0] == "fixed_auto":
        image.set_size(S[sz[1]])
    else:
        image.size = S[sz[1]]
        prior = case.get("prior")
        if prior:
            import term_image

            env.apply(cell=prior["cell"])
            term_image.set_cell_ratio(prior["ratio"])
            try:
                pw, ph = image.rendered_size
                if prior["render"] and pw * ph <= 2000:
                    str(image)
            except Exception as e:
                raise Violation(f"render under the prior configuration raised {type(e).__name__}: {e}", {"kind": "render_exception"})
            env.apply(cell=case["cfg"]["cell"])
            term_image.set_cell_ratio(case["ratio"])
            rec.label("prior_config")
    W, H = image.rendered_size
    l, r, t, b = case["slack"]
    if sz[0] == "dynamic":
        cols, rows = env.CFG.cols, env.CFG.rows
        if W > cols or H > rows:
            rec.label("nofit")
            return
        x0, y0 = min(l, cols - W), min(t, rows - H)
    else:
        cols, rows = l + W + r, t + H + b
        env.apply(cols=cols, rows=rows)
        x0, y0 = l, t
        if (W, H) != tuple(image.rendered_size):
            raise Violation(f"fixed size changed with the terminal size: {(W, H)} -> {image.rendered_size}")

    entry = case["entry"]
    sa = dict(case["style_args"])
    if sa.get("method", 0) is None:
        sa.pop("method")
    def render():
        if entry == "str":
            return str(image)
        if entry == "format":
            return format(image, fmt_spec(case))
        return image._renderer(image._render_image, case["alpha"], **sa)

    if case.get("abort") is not None and W * H <= 48:
        from ..faults import interrupt_at

        try:
            lf = interrupt_at(("image/block.py", "image/kitty.py", "image/iterm2.py", "image/common.py"), case["abort"], render,
                              max_lines=20000)
        except Exception as e:
            raise Violation(f"render raised {type(e).__name__}: {e}", {"kind": "render_exception"})
        if lf is not None and lf.fired:
            rec.label("after_interrupted_render")
    if case.get("subclass"):
        rec.label("subclass")
    try:
        out = render()
    except Exception as e:
        raise Violation(f"render raised {type(e).__name__}: {e}", {"kind": "render_exception"})
    if not isinstance(case["size"][1], int) and case["size"][0] == "dynamic":
        if image.size is not S[sz[1]]:
            raise Violation(f"dynamic size setting changed by rendering: {image.size!r}")
    if (W, H) != tuple(image.rendered_size):
        raise Violation(f"rendered_size changed by rendering: {(W, H)} -> {image.rendered_size}")

    profile = env.model_profile()
    right = x0 + W == cols
    bottom = y0 + H == rows
    method = (sa.get("method") or "lines").lower() if style != "block" else "-"
    akind = "none" if case["alpha"] is None else ("thr" if isinstance(case["alpha"], float) else ("bg" if case["alpha"] == "#" else "hex"))
    rec.label(f"style:{style}", f"profile:{profile}", f"entry:{entry}", f"method:{method}",
              "right_margin" if right else "no_right", "bottom_row" if bottom else "no_bottom",
              "animated" if "frame" in case["source"] else "still", *(["chunk_boundary"] if case.get("boundary") else []))
    if H >= 2 or x0 > 0 or right:
        rec.nontriv([style, method, profile, W, H, right, bottom, akind, entry])

    # (a) newline structure
    if out.count("\n") != H - 1:
        raise Violation(f"{out.count(chr(10))} newlines in a render of height {H}", {"clause": "newlines"})
    if out.endswith("\n"):
        raise Violation("render ends with a newline", {"clause": "newlines"})

    scr = Screen(cols, rows, profile=profile, strict=True)
    scr.fill("~")
    scr.feed(f"\x1b[{y0 + 1};{x0 + 1}H")
    scr.reset_touched()
    scr.clamps.clear()
    scr.feed(anchor(out, x0), onlcr=True)

    # (b) every control sequence complete and known
    bad = [e for e in scr.events if e[0] not in ("image_past_margin",)]
    if bad:
        raise Violation(f"control-sequence anomalies: {bad[:4]}", {"clause": "sequences"})
    if not scr.in_ground():
        raise Violation(f"render leaves the terminal parser in state {scr.parser_state()}", {"clause": "sequences"})
    # (d) no scrolling, wrapping, or clamping (except at the right margin)
    if scr.scrolls:
        raise Violation(f"render scrolled the screen {scr.scrolls}x ({W}x{H} at {(x0, y0)} on {cols}x{rows})", {"clause": "scroll"})
    for e in scr.events:
        if e[0] == "image_past_margin":
            raise Violation(f"graphics extends past the right margin: {e}", {"clause": "footprint"})
    for c in scr.clamps:
        if not (c[0] == "right" and right):
            raise Violation(f"cursor movement clamped at the {c[0]} edge (n={c[1]}, at {c[2]}); W={W} H={H} x0={x0} y0={y0} {cols}x{rows}", {"clause": "clamp"})
    # (c) touched cells == rectangle
    mix = bool(sa.get("mix", False))
    for y in range(rows):
        inside_y = y0 <= y < y0 + H
        for x in range(cols):
            inside = inside_y and x0 <= x < x0 + W
            touched = scr.touched[y][x]
            cov = scr.covered_by_graphics(x, y)
            if not inside and (touched or cov):
                raise Violation(f"cell {(x, y)} outside the {W}x{H} rectangle at {(x0, y0)} was modified", {"clause": "outside"})
            if inside and not (touched or cov):
                raise Violation(f"cell {(x, y)} inside the {W}x{H} rectangle at {(x0, y0)} is not covered", {"clause": "uncovered"})
            if inside and style == "block" and scr.grid[y][x][0] not in (" ", "▀", "▄"):
                raise Violation(f"block render left glyph {scr.grid[y][x][0]!r} at {(x, y)}", {"clause": "glyph"})
            if inside and style != "block" and not cov:
                raise Violation(f"cell {(x, y)} of a graphics render is not covered by an image", {"clause": "uncovered"})
    if style == "kitty" and not mix or style == "iterm2" and not mix and profile == "wezterm":
        for y in range(y0, y0 + H):
            for x in range(x0, x0 + W):
                if not scr.touched[y][x] or scr.grid[y][x][0] != " ":
                    raise Violation(f"text under the image at {(x, y)} was not erased (mix=False)", {"clause": "erase"})
    # footprint of placements
    if style != "block":
        rects = [g["placed"][:4] for g in scr.graphics_log if "placed" in g]
        anim = method == "anim" and "frame" in case["source"]
        if method == "lines":
            exp = [(x0, y0 + i, W, 1) for i in range(H)]
        else:
            exp = [(x0, y0, W, H)]
        if sorted(rects) != sorted(exp):
            raise Violation(f"graphics footprints {rects} != expected {exp} (method {method}, anim={anim})", {"clause": "footprint"})
    # (e) final cursor
    ex, ey = min(x0 + W, cols - 1), y0 + H - 1
    if (scr.x, scr.y) != (ex, ey):
        raise Violation(f"cursor ends at {(scr.x, scr.y)}, expected {(ex, ey)} (W={W} H={H} x0={x0} y0={y0} cols={cols})", {"clause": "cursor"})
    # (f) attributes reset, cursor visibility untouched
    if scr.sgr != DEFAULT_SGR:
        raise Violation(f"text attributes not reset at the end of the render: {scr.sgr}", {"clause": "sgr"})
    if not scr.cursor_visible or scr.sync_depth:
        raise Violation("render changed cursor visibility / synchronized-update state")


CLAUSES = [
    Clause(
        "rectangle",
        check_render,
        cases,
        budget={"quick": 1500, "thorough": 60000},
        floors={"right_margin": 0.1, "bottom_row": 0.1, "chunk_boundary": 0.03, "style:kitty": 0.15, "style:iterm2": 0.15,
                "style:block": 0.15},
    ),
]
