"""C16 — render-argument sets obey their precedence, compatibility and immutability laws.

A case is a *program*: a tree of render classes (each optionally with an ArgsNamespace and/or
a DataNamespace class, associated right after the class is created and before it is
subclassed or used), followed by a list of operations on a growing pool of namespaces, sets of
render arguments and render data.  Every operation is executed on the real library and on
the documentation-derived model `vf.ref.renderargs` in lock-step; after every operation
EVERY object that already existed (and every class's default set / namespace definition) is
compared against its model again, so any aliasing between objects shows up as a change of
an object that the operation was not supposed to touch.
"""

from __future__ import annotations

from hypothesis import strategies as st

from ..core import Clause, Violation
from ..ref import renderargs as M
from ..ref.renderargs import NS, ROOT, UNSET, Reject, Tree

META = {
    "level": "exploration",
    "rule": (
        "Hypothesis-generated programs: a tree of 1-8 fresh render classes (depth <= 4, branching <= 3) "
        "with ArgsNamespace (1-3 fields, optional inheriting sub-namespace class) / DataNamespace classes "
        "on random subsets, then 10-25 operations (namespace ctor incl. bad calls, RenderArgs ctor with "
        "init/None/namespaces, update both forms, convert, |, reflected | (args | ns and direct __ror__), unary +, "
        "to_render_args, "
        "[], in, iter, ==/hash against the whole pool, RenderData + field get/set/update, frozen-field "
        "writes, namespace-class definitions that must be rejected/accepted) interpreted in lock-step with "
        "vf.ref.renderargs; after each op all pool objects and all class defaults are re-verified. "
        "Non-trivial = an op whose resulting set has >= 2 constituent namespaces mixing default-valued and "
        "non-default ones; distinct by (op kind, tree shape incl. which classes own arguments, default-mask)."
    ),
    "assumptions": [
        "namespace classes are associated before their render class is subclassed or used (documented requirement)",
        "field values are hashable immutable primitives (ints, bools, floats, strings, None)",
        "single-inheritance class trees only (no diamonds); RenderArgs itself is not subclassed",
        "when two documented error conditions hold at once and the documentation gives no order, either "
        "documented exception is accepted",
        "object identity of results is not judged (interning / returning self is allowed); only contents, "
        "equality, hashes and non-interference are",
    ],
}

R = None  # term_image.renderable
T = None  # term_image.renderable._types
env = None
EXC = {}
_SERIAL = [0]


def setup():
    global R, T, env
    from .. import env as _env

    _env.install()
    import term_image.renderable as _R
    from term_image.renderable import _types as _T

    R, T, env = _R, _T, _env
    EXC.update(
        {
            M.E_INC_ARGS: _R.IncompatibleRenderArgsError,
            M.E_INC_NS: _R.IncompatibleArgsNamespaceError,
            M.E_NO_ARGS: _R.NoArgsNamespaceError,
            M.E_NO_DATA: _R.NoDataNamespaceError,
            M.E_UNK_ARGS: _R.UnknownArgsFieldError,
            M.E_UNK_DATA: _R.UnknownDataFieldError,
            M.E_UNINIT: _R.UninitializedDataFieldError,
            M.E_TYPE: TypeError,
            M.E_VALUE: ValueError,
            M.E_ATTR: AttributeError,
        }
    )


# ======================================================================== generation

VALUES = [0, 1, 2, 3, -1, True, False, 1.0, 0.0, 2.0, 0.5, "a", "b", "", "1", None]
NAMES = ["a", "b", "c", "x"]
val = st.sampled_from(VALUES)
# "@d": the field's default; "@e": a value equal to but not identical with the default
opval = st.sampled_from(["@d", "@e"] * 2 + VALUES)
idx = st.integers(0, 40)
fit = st.sampled_from([True, True, True, False])

OP_WEIGHTS = {
    "ns": 5, "args": 8, "update_ns": 5, "update_f": 5, "convert": 5, "or": 7, "ror": 2, "pos": 2,
    "ns_update": 3, "to_args": 3, "getitem": 3, "contains": 2, "iter": 1, "eq": 1, "data": 1,
    "data_set": 2, "data_get": 1, "data_update": 1, "frozen": 1, "update_bad": 1, "define": 2,
}
DEF_SCENARIOS = [
    "nodefault", "reassoc", "twobases", "inherit_define", "unassoc_fields", "assoc_nofields",
    "second", "required_param", "base_nofields", "inherit",
]


def D(**kw):
    return st.fixed_dictionaries(kw)


def J(x):
    return st.just(x)


B = st.booleans()
I = idx
CLS = st.tuples(I, I).map(list)  # class selectors, see World.c()
# [field selector, value]; selector -1 = unknown field name, else index modulo #fields
KWITEM = st.tuples(st.sampled_from([0, 1, 2] * 5 + [-1]), opval).map(list)


def mostly_nonempty(elements, max_size):
    """lists that are empty about 1 time in 4 (plus hypothesis' own bias to short lists)"""
    return st.tuples(st.integers(0, 3), st.lists(elements, min_size=1, max_size=max_size)).map(
        lambda t: t[1] if t[0] else [])


KW2 = mostly_nonempty(KWITEM, 2)
KW3 = mostly_nonempty(KWITEM, 3)
POS = mostly_nonempty(opval, 3)
NSS = mostly_nonempty(I, 3)
NSS1 = st.lists(I, min_size=1, max_size=3)
KIND2 = st.sampled_from(["ns", "ns", "args"])
MAYBE_CLS = st.tuples(st.integers(0, 5), CLS).map(lambda t: t[1] if t[0] else "notclass")
MAYBE_NONE = st.tuples(st.integers(0, 2), CLS).map(lambda t: t[1] if t[0] else None)

OPS = {
    # bad: "" (well-formed call) | "over" (too many values) | "dup" (value given twice)
    "ns": D(op=J("ns"), cls=I, sub=B, pos=POS, kw=KW3, bad=st.sampled_from([""] * 10 + ["over", "dup"])),
    "args": D(op=J("args"), cls=CLS, init=st.sampled_from(["omit", "omit", "none", "obj", "obj", "obj"]),
              a=I, nss=NSS, fit=fit),
    "update_ns": D(op=J("update_ns"), a=I, nss=NSS1, fit=fit),
    "update_f": D(op=J("update_f"), a=I, cls=CLS, kw=KW2, fit=fit),
    "convert": D(op=J("convert"), a=I, cls=CLS, fit=fit),
    "or": D(op=J("or"), lk=KIND2, l=I, rk=KIND2, r=I, fit=fit),
    "ror": D(op=J("ror"), lk=KIND2, l=I, r=I, fit=fit),
    "pos": D(op=J("pos"), n=I),
    "ns_update": D(op=J("ns_update"), n=I, kw=KW3),
    "to_args": D(op=J("to_args"), n=I, cls=MAYBE_NONE, fit=fit),
    "getitem": D(op=J("getitem"), a=I, cls=MAYBE_CLS, fit=fit),
    "contains": D(op=J("contains"), a=I, n=I, fit=fit),
    "iter": D(op=J("iter"), a=I),
    "eq": D(op=J("eq"), xk=st.sampled_from(["ns", "args"]), x=I, yk=st.sampled_from(["ns", "args", "other"]), y=I),
    "data": D(op=J("data"), cls=CLS),
    "data_set": D(op=J("data_set"), d=I, cls=MAYBE_CLS, name=st.sampled_from([0, 1, 0, 1, -1]), fit=fit, v=val),
    "data_get": D(op=J("data_get"), d=I, cls=MAYBE_CLS, name=st.sampled_from([0, 1, 0, 1, -1]), fit=fit),
    "data_update": D(op=J("data_update"), d=I, cls=CLS, kw=KW2, fit=fit),
    "frozen": D(op=J("frozen"), n=I, how=st.sampled_from(["set", "set_unknown", "del"]), name=st.integers(0, 2), v=val),
    "update_bad": D(op=J("update_bad"), a=I, n=I, cls=CLS, form=st.integers(0, 1)),
    "define": D(op=J("define"), sc=st.sampled_from(DEF_SCENARIOS), fam=st.sampled_from(["args", "args", "data"]),
                cls=CLS, cls2=I, variant=st.integers(0, 2), then_ok=B),
}


NCLASSES = st.sampled_from([1, 2, 3, 4, 5, 5, 6, 6, 7, 7, 8, 8])
PARENT = st.tuples(st.sampled_from([1, 1, 2, 9, 9, 0]), I).map(list)
# (hypothesis' one_of() ignores repeated branches, so weights go through an explicit selector)
ARGS_SPEC = st.tuples(
    st.integers(0, 9),
    D(fields=st.tuples(st.permutations(NAMES), st.integers(1, 3), st.tuples(val, val, val)).map(
        lambda t: [[nm, d] for nm, d in zip(t[0][: t[1]], t[2])]), sub=B),
).map(lambda t: t[1] if t[0] < 8 else None)
DATA_SPEC = st.tuples(
    st.integers(0, 9),
    D(fields=st.tuples(st.permutations(NAMES), st.integers(1, 2)).map(lambda t: list(t[0][: t[1]])), assign=B),
).map(lambda t: t[1] if t[0] < 4 else None)
TREE_RAW = NCLASSES.flatmap(
    lambda n: st.tuples(
        st.lists(PARENT, min_size=n, max_size=n), st.lists(ARGS_SPEC, min_size=n, max_size=n),
        st.lists(DATA_SPEC, min_size=n, max_size=n), st.lists(B, min_size=n, max_size=n), val,
    )
)


def _tree(raw):
    """parent selectors -> a valid tree (depth <= 4, branching <= 3 below the root)"""
    psel, args, data, order, v = raw
    args = list(args)
    parents, depth, nchild = [], [], []
    for i, (how, x) in enumerate(psel):
        # how: 1/2 -> i-1 / i-2 (chains), 9 -> any earlier class or the root, 0 -> the root
        p = -1 if (i == 0 or how == 0) else (x % (i + 1)) - 1 if how == 9 else max(-1, i - how)
        while p != -1 and (depth[p] >= 4 or nchild[p] >= 3):
            p = parents[p]
        parents.append(p)
        depth.append(1 if p == -1 else depth[p] + 1)
        nchild.append(0)
        if p != -1:
            nchild[p] += 1
    if not any(args):
        args[0] = {"fields": [["a", v]], "sub": False}
    return {"parents": parents, "args": args, "data": list(data), "data_first": list(order)}


def trees():
    return TREE_RAW.map(_tree)


def op_strategy(kinds):
    return st.sampled_from(kinds).flatmap(OPS.__getitem__)  # kinds repeats entries as weights


def _programs(def_heavy):
    if def_heavy:
        kinds = ["define"] * 6 + ["ns", "args", "or", "update_f", "data", "data_set", "convert"]
        body = st.lists(op_strategy(kinds), min_size=3, max_size=10)
    else:
        kinds = [k for k, w in OP_WEIGHTS.items() for _ in range(w)]
        body = st.lists(op_strategy(kinds), min_size=8, max_size=21)
    prefix = st.tuples(st.lists(OPS["ns"], min_size=1, max_size=3), OPS["args"]).map(lambda t: t[0] + [t[1]])
    return st.tuples(trees(), prefix, body).map(lambda t: {"tree": t[0], "ops": t[1] + t[2]})


# ======================================================================== interpreter

def _variant(v):
    """a value equal to v (==) but of another type where possible"""
    if isinstance(v, bool):
        return int(v)
    if isinstance(v, int):
        return float(v)
    if isinstance(v, float) and v == int(v):
        return int(v)
    return v


def _show(v):
    return f"{type(v).__name__}:{v!r}"


class World:
    def __init__(self, case, rec):
        self.rec = rec
        _SERIAL[0] += 1
        self.serial = _SERIAL[0]
        self.nname = 0
        t = case["tree"]
        self.tree = Tree(
            [], [], [], root_data_fields=list(R.Renderable._Data_.get_fields())
        )
        self.classes = []  # real render classes, by index
        self.args_cls = []  # namespace class or None
        self.sub_args_cls = []
        self.data_cls = []
        self.ns_pool = []  # (obj, model, hash, non-default?)
        self.args_pool = []
        self.data_pool = []
        self.iter_order = {}
        self.opno = -1
        self.opdesc = "tree construction"
        self.nontriv_keys = 0
        self.shape = None
        self.mixed = self.rejected = False
        self._build(t)

    # -- naming / class helpers -----------------------------------------------------
    def uniq(self, stem):
        self.nname += 1
        return f"{stem}_{self.serial}_{self.nname}"

    def cls(self, c):
        return R.Renderable if c == ROOT else self.classes[c]

    def c(self, v):
        """class selector(s) from the case data -> class index in [ROOT, n0); the max of several
        selectors (later classes are deeper on average); non-numeric selectors pass through"""
        if isinstance(v, list):
            return max((x % (self.n0 + 1)) - 1 for x in v)
        if isinstance(v, int):
            return (v % (self.n0 + 1)) - 1
        return v

    def cname(self, c):
        return "Renderable" if c == ROOT else f"C{c}"

    def fail(self, msg, kind, **sig):
        sig = {"kind": kind, **sig}
        raise Violation(f"[op {self.opno}: {self.opdesc}] {msg}", sig)

    def new_render_class(self, parent):
        body = {
            "_get_render_size_": lambda self: None,
            "_render_": lambda self, render_data, render_args: None,
            "__module__": "vf_c16",
        }
        try:
            return type(self.uniq("C"), (self.cls(parent),), body)
        except Exception as e:
            self.fail(f"creating a render class raised {type(e).__name__}: {e}", "class_creation")

    def define_ns(self, fam, name, bases, fields=(), render_cls=None, missing=(), assign=True, extra=None):
        """Runs a namespace class definition: class name(*bases, render_cls=...): f: Any = default ..."""
        body = {"__module__": "vf_c16", "__qualname__": name}
        if fields:
            body["__annotations__"] = {f: "Any" for f, _ in fields}
            if assign:
                for f, d in fields:
                    if f not in missing:
                        body[f] = d
        if extra:
            body.update(extra)
        meta = type(R.ArgsNamespace if fam == "args" else R.DataNamespace)
        if render_cls is None:
            return meta(name, bases, body)
        return meta(name, bases, body, render_cls=render_cls)

    def add_class(self, parent, a=None, d=None, data_first=False):
        cls = self.new_render_class(parent)
        c = self.tree.add(parent)
        self.classes.append(cls)
        self.args_cls.append(None)
        self.sub_args_cls.append(None)
        self.data_cls.append(None)
        steps = [("data", d), ("args", a)] if data_first else [("args", a), ("data", d)]
        for fam, spec in steps:
            if spec:
                self.associate(c, fam, spec)
        return c

    def associate(self, c, fam, spec):
        cls = self.classes[c]
        try:
            if fam == "args":
                fields = [(f, d) for f, d in spec["fields"]]
                nscls = self.define_ns("args", self.uniq("Args"), (R.ArgsNamespace,), fields, cls)
                sub = None
                if spec.get("sub"):
                    sub = self.define_ns("args", self.uniq("SubArgs"), (nscls,))
                self.args_cls[c], self.sub_args_cls[c] = nscls, sub
                self.tree.args_fields[c] = fields
            else:
                fields = [(f, 7) for f in spec["fields"]]
                nscls = self.define_ns("data", self.uniq("Data"), (R.DataNamespace,), fields, cls,
                                       assign=spec.get("assign", False))
                self.data_cls[c] = nscls
                self.tree.data_fields[c] = [f for f, _ in fields]
        except Exception as e:
            self.fail(
                f"valid {fam} namespace definition for {self.cname(c)} raised {type(e).__name__}: {e}",
                "definition_raised", fam=fam,
            )

    def _build(self, t):
        parents = t["parents"]
        for i, p in enumerate(parents):
            p = max(ROOT, min(int(p), i - 1))
            self.add_class(p, t["args"][i], t["data"][i], bool(t["data_first"][i]))
        self.shape = [list(self.tree.parents), [1 if a else 0 for a in self.tree.args_fields]]
        self.n0 = self.tree.n
        self.argclasses = [k for k in range(self.n0) if self.tree.has_args(k)]
        self.verify_world("tree")

    # -- comparing real objects with the model -----------------------------------------
    def check_ns(self, obj, m, what, kind="result"):
        nscls = self.args_cls[m.cls]
        if not isinstance(obj, nscls):
            self.fail(f"{what}: expected an instance of the namespace class of {self.cname(m.cls)}, got {obj!r}", kind)
        names = self.tree.field_names(m.cls)
        for name, want in zip(names, m.values):
            try:
                got = getattr(obj, name)
            except Exception as e:
                self.fail(f"{what}: reading field {name!r} raised {type(e).__name__}: {e}", kind)
            if not M.same_typed(got, want):
                self.fail(
                    f"{what}: field {self.cname(m.cls)}.{name} is {_show(got)}, expected {_show(want)} (object {obj!r})",
                    kind, what="field",
                )

    def check_args(self, obj, m, what, kind="result"):
        if not isinstance(obj, R.RenderArgs):
            self.fail(f"{what}: expected a RenderArgs instance, got {obj!r}", kind)
        if obj.render_cls is not self.cls(m.cls):
            self.fail(
                f"{what}: render_cls is {getattr(obj.render_cls, '__name__', obj.render_cls)!r}, expected "
                f"{self.cname(m.cls)} ({self.cls(m.cls).__name__})", kind, what="render_cls",
            )
        for k, vals in m.ns.items():
            try:
                ns = obj[self.classes[k]]
            except Exception as e:
                self.fail(f"{what}: [{self.cname(k)}] raised {type(e).__name__}: {e} (object {obj!r})", kind)
            self.check_ns(ns, NS(k, vals), f"{what}[{self.cname(k)}]", kind)
        count = sum(1 for _ in obj)
        if count != len(m.ns):
            self.fail(f"{what}: holds {count} namespaces, expected {len(m.ns)} (object {obj!r})", kind, what="count")

    def check_data(self, obj, m, what, kind="result"):
        if not isinstance(obj, R.RenderData) or obj.render_cls is not self.cls(m.cls):
            self.fail(f"{what}: not a RenderData for {self.cname(m.cls)}: {obj!r}", kind)
        seen = []
        for k, fields in m.ns.items():
            try:
                dn = obj[self.cls(k)]
            except Exception as e:
                self.fail(f"{what}: [{self.cname(k)}] raised {type(e).__name__}: {e}", kind)
            want_cls = R.Renderable._Data_ if k == ROOT else self.data_cls[k]
            if not isinstance(dn, want_cls):
                self.fail(f"{what}[{self.cname(k)}] is {dn!r}, not an instance of {want_cls.__name__}", kind)
            if any(dn is s for s in seen):
                self.fail(f"{what}: the same data namespace object serves two classes", kind)
            seen.append(dn)
            for f, want in fields.items():
                try:
                    got = getattr(dn, f)
                except R.UninitializedDataFieldError:
                    got = UNSET
                except Exception as e:
                    self.fail(f"{what}[{self.cname(k)}].{f} raised {type(e).__name__}: {e}", kind)
                if not (got is want if want is UNSET or got is UNSET else M.same_typed(got, want)):
                    self.fail(
                        f"{what}: data field {self.cname(k)}.{f} is "
                        f"{'<uninitialized>' if got is UNSET else _show(got)}, expected "
                        f"{'<uninitialized>' if want is UNSET else _show(want)}", kind, what="data_field",
                    )
        count = sum(1 for _ in obj)
        if count != len(m.ns):
            self.fail(f"{what}: holds {count} data namespaces, expected {len(m.ns)}", kind)
        if obj.finalized is not False:
            self.fail(f"{what}: finalized is {obj.finalized!r}", kind)

    def verify_world(self, after):
        """Nothing that exists may differ from its model (immutability / no aliasing)."""
        kind = "mutated"
        tree = self.tree
        for i, (obj, m, h, _) in enumerate(self.ns_pool):
            self.check_ns(obj, m, f"existing namespace #{i} after {after}", kind)
            if hash(obj) != h:
                self.fail(f"hash of existing namespace #{i} changed after {after}", kind)
        for i, (obj, m, h, _) in enumerate(self.args_pool):
            self.check_args(obj, m, f"existing render-args #{i} after {after}", kind)
            if hash(obj) != h:
                self.fail(f"hash of existing render-args #{i} changed after {after}", kind)
        for i, (obj, m, _, _) in enumerate(self.data_pool):
            self.check_data(obj, m, f"existing render-data #{i} after {after}", kind)
        interned = getattr(R.RenderArgs, "_interned", None)
        for c in range(tree.n):
            cls = self.classes[c]
            what = f"class {self.cname(c)} after {after}"
            if cls.Args is not self.args_cls[c]:
                self.fail(f"{what}: .Args is {cls.Args!r}, expected {self.args_cls[c]!r}", kind, what="Args")
            if cls._Data_ is not self.data_cls[c]:
                self.fail(f"{what}: ._Data_ is {cls._Data_!r}, expected {self.data_cls[c]!r}", kind, what="Data")
            if tree.has_args(c):
                nscls = self.args_cls[c]
                fields = nscls.get_fields()
                want = tree.args_fields[c]
                if list(fields) != [f for f, _ in want] or not all(
                    M.same_typed(fields[f], d) for f, d in want
                ):
                    self.fail(f"{what}: get_fields() is {dict(fields)!r}, expected {want!r}", kind, what="fields")
                if nscls.get_render_cls() is not cls:
                    self.fail(f"{what}: namespace class get_render_cls() is {nscls.get_render_cls()!r}", kind)
                sub = self.sub_args_cls[c]
                if sub is not None and (sub.get_render_cls() is not cls or dict(sub.get_fields()) != dict(fields)):
                    self.fail(f"{what}: inheriting namespace class lost its association/fields", kind)
            if tree.has_data(c):
                dcls = self.data_cls[c]
                if list(dcls.get_fields()) != tree.data_names(c) or dcls.get_render_cls() is not cls:
                    self.fail(f"{what}: data namespace class fields/association changed", kind)
            alld = getattr(cls, "_ALL_DEFAULT_ARGS", None)
            if alld is not None:
                mro = tree.args_mro(c)
                if set(alld) != {self.classes[k] for k in mro}:
                    self.fail(f"{what}: default namespaces cover {[k.__name__ for k in alld]}, expected those of "
                              f"{[self.cname(k) for k in mro]}", kind, what="default_keys")
                for k in mro:
                    self.check_ns(alld[self.classes[k]], tree.default_ns(k), f"{what}: default namespace of {self.cname(k)}", kind)
            dmro = getattr(cls, "_RENDER_DATA_MRO", None)
            if dmro is not None:
                want_d = {self.cls(k): (R.Renderable._Data_ if k == ROOT else self.data_cls[k]) for k in tree.data_mro(c)}
                if dict(dmro) != want_d:
                    self.fail(f"{what}: render data classes are {dict(dmro)!r}, expected {want_d!r}", kind, what="data_mro")
            if interned is not None:
                o = interned.get(cls)
                if o is not None:
                    self.check_args(o, tree.default_args(c), f"{what}: shared default set", kind)

    # -- pools -----------------------------------------------------------------------
    def pick(self, pool, i, pred=None, rich=False):
        """i-th (modulo) pool entry; pred ("fit"): only among entries whose model satisfies pred,
        None if there is none; rich: 2 times in 3 only among entries with non-default content"""
        cand = pool
        if pred is not None:
            cand = [e for e in pool if pred(e[1])]
        if rich and i % 3:
            cand = [e for e in cand if e[3]] or cand
        return cand[i % len(cand)] if cand else None

    def add_ns(self, obj, m):
        self.cross_eq(obj, m)
        self.ns_pool.append((obj, m, hash(obj), not M.values_equal(m.values, self.tree.defaults(m.cls))))

    def add_args(self, obj, m, opkind):
        self.cross_eq(obj, m)
        if any(obj is e[0] for e in self.args_pool):
            self.rec.label("result_is_existing_object")
        mask = self.tree.default_mask(m)
        self.args_pool.append((obj, m, hash(obj), "n" in mask))
        self.rec.label(f"res_levels:{min(len(mask), 3)}", "res_all_default" if "n" not in mask else "res_some_nondefault")
        self.rec.label(("res_default:" if "n" not in mask else "res_nondefault:") + opkind)
        if "d" in mask and "n" in mask:
            self.rec.label("mixed_result")
            self.mixed = True
            if self.nontriv_keys < 6:
                self.nontriv_keys += 1
                self.rec.nontriv([opkind, self.shape, mask])

    def cross_eq(self, obj, m):
        """== / != / hash of a new object against everything in the pools."""
        try:
            h = hash(obj)
        except Exception as e:
            self.fail(f"hash() of {obj!r} raised {type(e).__name__}: {e}", "hash_raised")
        if hash(obj) != h:
            self.fail(f"hash() of {obj!r} is not stable", "hash")
        for pool in (self.ns_pool, self.args_pool):
            for other, om, oh, _ in pool:
                want = self.tree.equal(m, om)
                try:
                    got = [obj == other, other == obj, not (obj != other), not (other != obj)]
                except Exception as e:
                    self.fail(f"comparing {obj!r} with {other!r} raised {type(e).__name__}: {e}", "eq_raised")
                if got != [want] * 4:
                    self.fail(
                        f"{obj!r} vs {other!r}: [a==b, b==a, not a!=b, not b!=a] = {got}, expected all {want}",
                        "eq", want=want,
                    )
                if want:
                    self.rec.label("eq_true")
                    if h != oh:
                        self.fail(f"equal objects with different hashes: {obj!r} / {other!r}", "hash")

    # -- running one library call against the model ------------------------------------
    def attempt(self, opkind, real, model):
        """-> (result, model_result) or (None, None) when correctly rejected."""
        exp = None
        try:
            m = model()
        except Reject as r:
            m, exp = None, r.kinds
        err = None
        try:
            res = real()
        except Exception as e:  # classified below
            res, err = None, e
        if exp is not None:
            if err is None:
                self.fail(f"accepted (-> {res!r}) but the documentation requires {sorted(exp)}", "accepted",
                          op=opkind, expected=sorted(exp))
            if not any(isinstance(err, EXC[k]) for k in exp):
                self.fail(f"raised {type(err).__name__}: {err}; documented: {sorted(exp)}", "wrong_exception",
                          op=opkind, expected=sorted(exp), got=type(err).__name__)
            self.rec.label(f"rej:{opkind}", "rejected")
            self.rejected = True
            return None, None
        if err is not None:
            self.fail(f"valid operation raised {type(err).__name__}: {err}", "raised", op=opkind,
                      got=type(err).__name__)
        self.rec.label(f"ok:{opkind}")
        return res, m

    def resolve(self, v, default):
        if v == "@d" and isinstance(v, str):
            return default
        if v == "@e" and isinstance(v, str):
            return _variant(default)
        return v

    def kw(self, items, names, defaults):
        out = {}
        for k, v in items:
            if k < 0 or not names:
                out["zz"] = self.resolve(v, 0)
            else:
                j = k % len(names)
                out[names[j]] = self.resolve(v, defaults[j])
        return out

    # -- operations ----------------------------------------------------------------------
    def run_op(self, no, op):
        kind = op["op"]
        self.opno, self.opdesc = no, kind
        self.rec.label(f"op:{kind}")
        getattr(self, "op_" + kind)(op)
        self.verify_world(f"op {no} ({self.opdesc})")

    def skip(self):
        self.rec.label("skipped_op")

    def op_ns(self, op):
        tree = self.tree
        c = self.argclasses[op["cls"] % len(self.argclasses)]
        names, defaults = tree.field_names(c), tree.defaults(c)
        bad = op.get("bad", "")
        pos = list(op["pos"])
        if bad == "over":
            pos = (pos + [0] * 4)[: len(names) + 1]
        else:
            pos = pos[: len(names)]
        pos = [self.resolve(v, defaults[i] if i < len(defaults) else 0) for i, v in enumerate(pos)]
        if bad == "dup" and pos:
            kw = self.kw([[k % len(pos) if k >= 0 else k, v] for k, v in op["kw"]] or [[0, 1]], names, defaults)
        else:  # keywords address the fields not given positionally
            rest = len(names) - len(pos)
            items = [[len(pos) + k % rest if k >= 0 else k, v] for k, v in op["kw"]] if rest > 0 else (
                [[k, v] for k, v in op["kw"] if k < 0])
            kw = self.kw(items, names, defaults)
        nscls = self.sub_args_cls[c] if op.get("sub") and self.sub_args_cls[c] else self.args_cls[c]
        self.opdesc = f"{self.cname(c)}.Args{'(sub)' if nscls is not self.args_cls[c] else ''}(*{pos!r}, **{kw!r})"
        obj, m = self.attempt("ns", lambda: nscls(*pos, **kw), lambda: tree.make_ns(c, pos, kw))
        if m is not None:
            self.check_ns(obj, m, "new namespace")
            if not isinstance(obj, nscls):
                self.fail(f"constructor returned {type(obj).__name__}", "result")
            self.add_ns(obj, m)

    @staticmethod
    def _index(pool, e):
        return next(i for i, x in enumerate(pool) if x is e)

    def _args_desc(self, e):
        return f"args#{self._index(self.args_pool, e)}<{self.cname(e[1].cls)}>"

    def _ns_desc(self, e):
        return f"ns#{self._index(self.ns_pool, e)}<{self.cname(e[1].cls)}:{e[1].values!r}>"

    def op_args(self, op):
        tree = self.tree
        c = self.c(op["cls"])
        f = op.get("fit")
        init = self.pick(self.args_pool, op["a"], rich=f) if op["init"] == "obj" else None
        nss = [e for e in (self.pick(self.ns_pool, i, rich=f) for i in op["nss"]) if e is not None]
        if f:
            # fit: drop inputs (last first) until some class is compatible with all of them, and
            # take the target among those classes
            while True:
                items = [e[1] for e in nss] + ([init[1]] if init else [])
                cand = [k for k in range(ROOT, self.n0) if all(tree.is_sub(k, m.cls) for m in items)]
                if cand:
                    break
                if nss:
                    nss.pop()
                else:
                    init = None
            c = cand[(c + 1) % len(cand)]
        cls = self.cls(c)
        objs = [e[0] for e in nss]
        if init is not None:
            real = lambda: R.RenderArgs(cls, init[0], *objs)
            d = self._args_desc(init) + ", "
        elif op["init"] == "none":
            real = lambda: R.RenderArgs(cls, None, *objs)
            d = "None, "
        else:
            real = lambda: R.RenderArgs(cls, *objs)
            d = ""
        self.opdesc = f"RenderArgs({self.cname(c)}, {d}{', '.join(map(self._ns_desc, nss))})"
        obj, m = self.attempt(
            "args", real, lambda: tree.construct(c, init[1] if init else None, [e[1] for e in nss])
        )
        if m is not None:
            self.check_args(obj, m, "constructed set")
            self.add_args(obj, m, "args" if nss or init else "args_default")

    def op_update_ns(self, op):
        tree = self.tree
        a = self.pick(self.args_pool, op["a"], rich=op.get("fit"))
        if a is None:
            return self.skip()
        pred = (lambda m: tree.is_sub(a[1].cls, m.cls)) if op.get("fit") else None
        nss = [e for e in (self.pick(self.ns_pool, i, pred) for i in op["nss"]) if e is not None]
        if not nss:
            return self.skip()
        self.opdesc = f"{self._args_desc(a)}.update({', '.join(map(self._ns_desc, nss))})"
        obj, m = self.attempt(
            "update_ns", lambda: a[0].update(*[e[0] for e in nss]),
            lambda: tree.update_ns(a[1], [e[1] for e in nss]),
        )
        if m is not None:
            self.check_args(obj, m, "update() result")
            self.add_args(obj, m, "update_ns")

    def _rel_cls(self, c, ok):
        """class index c, or (fit) the (c-th modulo) class satisfying ok"""
        cand = [k for k in range(ROOT, self.n0) if ok(k)]
        if cand:
            return cand[(c + 1) % len(cand)]
        return c

    def op_update_f(self, op):
        tree = self.tree
        a = self.pick(self.args_pool, op["a"], rich=op.get("fit"))
        if a is None:
            return self.skip()
        c = self.c(op["cls"])
        if op.get("fit"):
            c = self._rel_cls(c, lambda k: tree.is_sub(a[1].cls, k) and tree.has_args(k))
        names, defaults = (tree.field_names(c), tree.defaults(c)) if tree.has_args(c) else ([], ())
        kw = self.kw(op["kw"], names, defaults)  # "@d" resets a field to its default
        self.opdesc = f"{self._args_desc(a)}.update({self.cname(c)}, **{kw!r})"
        obj, m = self.attempt(
            "update_f", lambda: a[0].update(self.cls(c), **kw), lambda: tree.update_fields(a[1], c, kw)
        )
        if m is not None:
            self.check_args(obj, m, "update() result")
            self.add_args(obj, m, "update_f")

    def op_update_bad(self, op):
        a = self.pick(self.args_pool, op["a"])
        n = self.pick(self.ns_pool, op["n"])
        if a is None or n is None:
            return self.skip()
        c = self.c(op["cls"])
        if op["form"] == 0:
            self.opdesc = f"{self._args_desc(a)}.update({self.cname(c)}, {self._ns_desc(n)})"
            real = lambda: a[0].update(self.cls(c), n[0])
        else:
            self.opdesc = f"{self._args_desc(a)}.update({self._ns_desc(n)}, a=1)"
            real = lambda: a[0].update(n[0], a=1)

        def model():
            raise Reject(M.E_TYPE)

        self.attempt("update_bad", real, model)

    def op_convert(self, op):
        tree = self.tree
        a = self.pick(self.args_pool, op["a"], rich=op.get("fit"))
        if a is None:
            return self.skip()
        c = self.c(op["cls"])
        if op.get("fit"):  # a related class: strict ancestor / strict descendant / any related, by turns
            ac = a[1].cls
            how = op["a"] % 3
            c = self._rel_cls(c, lambda k: tree.related(ac, k) and (
                how == 2 or k != ac and (tree.is_sub(ac, k) if how == 0 else tree.is_sub(k, ac))))
            if not tree.related(ac, c):
                c = self._rel_cls(c, lambda k: tree.related(ac, k))
        self.opdesc = f"{self._args_desc(a)}.convert({self.cname(c)})"
        obj, m = self.attempt("convert", lambda: a[0].convert(self.cls(c)), lambda: tree.convert(a[1], c))
        if m is not None:
            self.check_args(obj, m, "convert() result")
            rel = "same" if c == a[1].cls else ("down" if tree.is_sub(c, a[1].cls) else "up")
            self.rec.label(f"convert:{rel}")
            self.add_args(obj, m, f"convert_{rel}")
        # the same conversion on short-lived sets: each temporary is dropped before the next one is created (CPython
        # then usually re-uses its memory, hence its id()); results may only depend on the set's contents
        for x in [e for e in self.args_pool if tree.related(e[1].cls, c)][:5]:
            try:
                mm = tree.convert(x[1], c)
            except Reject:
                continue
            try:
                tmp = R.RenderArgs(self.cls(x[1].cls), *list(x[0]))  # built from the namespaces: a new object
                res = tmp.convert(self.cls(c))
            except Exception as e:
                self.fail(f"convert() of a temporary copy of {self._args_desc(x)} raised {type(e).__name__}: {e}", "raised", op="convert_temp")
            del tmp
            self.opdesc = f"RenderArgs({self.cname(x[1].cls)}, {self._args_desc(x)}).convert({self.cname(c)})  # temporary set"
            self.check_args(res, mm, "convert() of a short-lived set")
            res = None
            self.rec.label("convert_temp")

    def op_or(self, op):
        tree = self.tree
        lk, rk = op["lk"], op["rk"]
        if lk == "args" and rk == "args":
            rk = "ns"
        pools = {"ns": self.ns_pool, "args": self.args_pool}
        left = self.pick(pools[lk], op["l"], rich=op.get("fit"))
        if left is None:
            return self.skip()
        pred = (lambda m: tree.related(left[1].cls, m.cls)) if op.get("fit") else None
        right = self.pick(pools[rk], op["r"], pred, rich=op.get("fit"))
        if right is None:
            return self.skip()
        desc = {"ns": self._ns_desc, "args": self._args_desc}
        self.opdesc = f"{desc[lk](left)} | {desc[rk](right)}"
        opkind = f"or_{lk}_{rk}"
        obj, m = self.attempt(opkind, lambda: left[0] | right[0], lambda: tree.combine(left[1], right[1]))
        if m is not None:
            self.check_args(obj, m, "| result")
            if lk == rk == "ns" and left[1].cls == right[1].cls:
                self.rec.label("or:same_class_ns")
            self.add_args(obj, m, opkind)

    def op_ror(self, op):
        """right.__ror__(left) called directly: the documented reflected operation (left | right)."""
        tree = self.tree
        right = self.pick(self.ns_pool, op["r"])
        if right is None:
            return self.skip()
        lk = op["lk"]
        pred = (lambda m: tree.related(right[1].cls, m.cls)) if op.get("fit") else None
        left = self.pick({"ns": self.ns_pool, "args": self.args_pool}[lk], op["l"], pred)
        if left is None:
            return self.skip()
        desc = {"ns": self._ns_desc, "args": self._args_desc}
        self.opdesc = f"{self._ns_desc(right)}.__ror__({desc[lk](left)})"
        opkind = f"ror_{lk}_ns"
        obj, m = self.attempt(opkind, lambda: right[0].__ror__(left[0]), lambda: tree.combine(left[1], right[1]))
        if m is not None:
            self.check_args(obj, m, "__ror__ result")
            if lk == "ns" and left[1].cls == right[1].cls:
                self.rec.label("ror:same_class_ns")
            self.add_args(obj, m, opkind)

    def op_pos(self, op):
        n = self.pick(self.ns_pool, op["n"])
        if n is None:
            return self.skip()
        self.opdesc = f"+{self._ns_desc(n)}"
        obj, m = self.attempt("pos", lambda: +n[0], lambda: self.tree.pos(n[1]))
        if m is not None:
            self.check_args(obj, m, "unary + result")
            self.add_args(obj, m, "pos")

    def op_ns_update(self, op):
        tree = self.tree
        n = self.pick(self.ns_pool, op["n"])
        if n is None:
            return self.skip()
        kw = self.kw(op["kw"], tree.field_names(n[1].cls), tree.defaults(n[1].cls))
        self.opdesc = f"{self._ns_desc(n)}.update(**{kw!r})"
        obj, m = self.attempt("ns_update", lambda: n[0].update(**kw), lambda: tree.ns_update(n[1], kw))
        if m is not None:
            self.check_ns(obj, m, "namespace update() result")
            if type(obj) is not type(n[0]):
                self.fail(f"update() returned a {type(obj).__name__} from a {type(n[0]).__name__}", "result")
            self.add_ns(obj, m)

    def op_to_args(self, op):
        tree = self.tree
        n = self.pick(self.ns_pool, op["n"])
        if n is None:
            return self.skip()
        c = self.c(op["cls"])
        if c is not None:
            if op.get("fit"):
                c = self._rel_cls(c, lambda k: tree.is_sub(k, n[1].cls))
        self.opdesc = f"{self._ns_desc(n)}.to_render_args({'' if c is None else self.cname(c)})"
        real = (lambda: n[0].to_render_args()) if c is None else (lambda: n[0].to_render_args(self.cls(c)))
        obj, m = self.attempt("to_args", real, lambda: tree.to_render_args(n[1], c))
        if m is not None:
            self.check_args(obj, m, "to_render_args() result")
            self.add_args(obj, m, "to_args")

    def op_getitem(self, op):
        tree = self.tree
        a = self.pick(self.args_pool, op["a"])
        if a is None:
            return self.skip()
        c = self.c(op["cls"])
        if isinstance(c, int):
            if op.get("fit"):
                c = self._rel_cls(c, lambda k: tree.is_sub(a[1].cls, k) and tree.has_args(k))
            key = self.cls(c)
            self.opdesc = f"{self._args_desc(a)}[{self.cname(c)}]"
        else:
            key = int
            self.opdesc = f"{self._args_desc(a)}[int]"
        obj, m = self.attempt("getitem", lambda: a[0][key], lambda: tree.getitem(a[1], c))
        if m is not None:
            self.check_ns(obj, m, "[] result")
            self.add_ns(obj, m)

    def op_contains(self, op):
        tree = self.tree
        a = self.pick(self.args_pool, op["a"])
        if a is None:
            return self.skip()
        pred = (lambda m: m.cls in a[1].ns) if op.get("fit") else None
        n = self.pick(self.ns_pool, op["n"], pred)
        if n is None:
            return self.skip()
        self.opdesc = f"{self._ns_desc(n)} in {self._args_desc(a)}"
        got, want = self.attempt("contains", lambda: n[0] in a[0], lambda: tree.contains(a[1], n[1]))
        if got is not want:
            self.fail(f"-> {got!r}, expected {want!r} (set: {a[0]!r})", "contains", want=want)
        self.rec.label(f"contains:{want}")

    def op_iter(self, op):
        tree = self.tree
        a = self.pick(self.args_pool, op["a"])
        if a is None:
            return self.skip()
        self.opdesc = f"iter({self._args_desc(a)})"
        items, _ = self.attempt("iter", lambda: list(iter(a[0])), lambda: None)
        m = a[1]
        order = []
        for ns in items:
            ks = [k for k in m.ns if isinstance(ns, self.args_cls[k])]
            if len(ks) != 1 or ks[0] in order:
                self.fail(f"yielded {items!r} for a set that holds namespaces for {[self.cname(k) for k in m.ns]}", "iter")
            self.check_ns(ns, NS(ks[0], m.ns[ks[0]]), "iterated namespace")
            order.append(ks[0])
        if len(order) != len(m.ns):
            self.fail(f"yielded {len(order)} namespaces, expected {len(m.ns)}", "iter")
        first = self.iter_order.setdefault(m.cls, order)
        if first != order:
            self.fail(f"order of namespaces differs between two sets for {self.cname(m.cls)}: {first} vs {order}", "iter_order")

    def op_eq(self, op):
        pools = {"ns": self.ns_pool, "args": self.args_pool}
        x = self.pick(pools[op["xk"]], op["x"])
        if x is None:
            return self.skip()
        if op["yk"] == "other":
            others = [None, 0, "a", (), self.cls(x[1].cls), tuple(x[1].values if x[1].kind == "ns" else ())]
            y = others[op["y"] % len(others)]
            self.opdesc = f"{x[0]!r} == {y!r}"
            try:
                got = [x[0] == y, y == x[0], not (x[0] != y)]
            except Exception as e:
                self.fail(f"raised {type(e).__name__}: {e}", "eq_raised")
            if got != [False] * 3:
                self.fail(f"a namespace/set compared equal to a foreign object: {got}", "eq", want=False)
            return
        y = self.pick(pools[op["yk"]], op["y"])
        if y is None:
            return self.skip()
        self.opdesc = f"{x[0]!r} == {y[0]!r}"
        want = self.tree.equal(x[1], y[1])
        try:
            got = [x[0] == y[0], y[0] == x[0], not (x[0] != y[0])]
        except Exception as e:
            self.fail(f"raised {type(e).__name__}: {e}", "eq_raised")
        if got != [want] * 3:
            self.fail(f"[a==b, b==a, not a!=b] = {got}, expected all {want}", "eq", want=want)
        if want and hash(x[0]) != hash(y[0]):
            self.fail("equal objects with different hashes", "hash")
        if want:
            # equal objects must be interchangeable as dict keys / set members
            if len({x[0], y[0]}) != 1 or {x[0]: 1}.get(y[0]) != 1:
                self.fail("equal objects are distinct set members / dict keys", "hash")

    # -- render data ------------------------------------------------------------------
    def op_data(self, op):
        tree = self.tree
        c = self.c(op["cls"])
        self.opdesc = f"RenderData({self.cname(c)})"
        obj, m = self.attempt("data", lambda: R.RenderData(self.cls(c)), lambda: tree.make_data(c))
        self.check_data(obj, m, "new render data")
        self.data_pool.append((obj, m, None, False))

    def _data_target(self, op):
        tree = self.tree
        if not self.data_pool:
            desc = self.opdesc
            self.op_data({"cls": op["cls"] if isinstance(op["cls"], (int, list)) else 0})
            self.opdesc = desc
        d = self.pick(self.data_pool, op["d"])
        if d is None:
            return None, None, None
        c = self.c(op["cls"])
        if isinstance(c, int):
            if op.get("fit"):
                c = self._rel_cls(c, lambda k: tree.is_sub(d[1].cls, k) and tree.has_data(k))
            key = self.cls(c)
        else:
            key = int
        return d, c, key

    def _dname(self, c, sel):
        if not isinstance(c, int) or not self.tree.has_data(c) or sel < 0:
            return "zz"
        names = self.tree.data_names(c)
        return names[sel % len(names)]

    def op_data_set(self, op):
        d, c, key = self._data_target(op)
        if d is None:
            return self.skip()
        name, v = self._dname(c, op["name"]), op["v"]
        self.opdesc = f"data#{self._index(self.data_pool, d)}[{self.cname(c) if isinstance(c, int) else 'int'}].{name} = {v!r}"
        self.attempt("data_set", lambda: setattr(d[0][key], name, v), lambda: self.tree.data_set(d[1], c, name, v))

    def op_data_get(self, op):
        d, c, key = self._data_target(op)
        if d is None:
            return self.skip()
        name = self._dname(c, op["name"])
        self.opdesc = f"data#{self._index(self.data_pool, d)}[{self.cname(c) if isinstance(c, int) else 'int'}].{name}"
        got, want = self.attempt("data_get", lambda: (getattr(d[0][key], name),), lambda: (self.tree.data_get(d[1], c, name),))
        if want is not None and not M.same_typed(got[0], want[0]):
            self.fail(f"-> {_show(got[0])}, expected {_show(want[0])}", "data_field")

    def op_data_update(self, op):
        d, c, key = self._data_target(op)
        if d is None:
            return self.skip()
        names = self.tree.data_names(c) if self.tree.has_data(c) else []
        kw = self.kw(op["kw"], names, [0] * len(names))
        self.opdesc = f"data#{self._index(self.data_pool, d)}[{self.cname(c)}].update(**{kw!r})"
        self.attempt("data_update", lambda: d[0][key].update(**kw), lambda: self.tree.data_update(d[1], c, kw))

    def op_frozen(self, op):
        n = self.pick(self.ns_pool, op["n"])
        if n is None:
            return self.skip()
        names = self.tree.field_names(n[1].cls)
        name = "zz" if op["how"] == "set_unknown" else names[op["name"] % len(names)]
        if op["how"] == "del":
            self.opdesc = f"del {self._ns_desc(n)}.{name}"
            real = lambda: delattr(n[0], name)
        else:
            self.opdesc = f"{self._ns_desc(n)}.{name} = {op['v']!r}"
            real = lambda: setattr(n[0], name, op["v"])

        def model():
            raise Reject(M.E_ATTR)

        self.attempt("frozen", real, model)

    # -- definition-time rules ----------------------------------------------------------
    def op_define(self, op):
        tree = self.tree
        sc, fam = op["sc"], op["fam"]
        base = R.ArgsNamespace if fam == "args" else R.DataNamespace
        fam_err = T.RenderArgsError if fam == "args" else T.RenderDataError
        other_err = T.RenderDataError if fam == "args" else T.RenderArgsError
        has = tree.has_args if fam == "args" else tree.has_data
        c = self.c(op["cls"])
        if sc in ("reassoc", "inherit_define", "second", "inherit"):
            # needs a class that already owns a namespace of this family
            cand = [k for k in range(ROOT, tree.n) if has(k)]
            if not cand:
                return self.skip()
            if not has(c):
                c = cand[(c + 1) % len(cand)]
        ns_of = (lambda k: self.args_cls[k]) if fam == "args" else (
            lambda k: R.Renderable._Data_ if k == ROOT else self.data_cls[k])
        fields = [("p", 1), ("q", "x")]
        self.opdesc = f"define:{sc}:{fam} on {self.cname(c)}"
        self.rec.label(f"def:{sc}")
        fresh = None  # index of a fresh leaf render class, when one is made

        def new_leaf(parent):
            nonlocal fresh
            fresh = self.add_class(parent)
            return self.classes[fresh]

        def expect_rejected(thunk, what, exc=(None,)):
            exc = (T.RenderArgsDataError,) if exc == (None,) else exc
            try:
                res = thunk()
            except Exception as e:
                if not isinstance(e, exc) or isinstance(e, other_err):
                    self.fail(f"{what}: raised {type(e).__name__}: {e}; documented: "
                              f"{[x.__name__ for x in exc]}", "wrong_exception", op="define", sc=sc, fam=fam)
                self.rec.label("rejected", "rej:define")
                self.rejected = True
                return
            self.fail(f"{what}: definition was accepted ({res!r})", "definition_accepted", sc=sc, fam=fam)

        def expect_ok(thunk, what):
            try:
                return thunk()
            except Exception as e:
                self.fail(f"{what}: raised {type(e).__name__}: {e}", "definition_raised", sc=sc, fam=fam)

        def then_ok():
            # a rejected definition must leave no residue: the proper one still works
            if not op.get("then_ok") or fresh is None:
                return
            self.verify_world(f"rejected definition ({sc})")
            if fam == "args":
                spec = {"fields": [[f, d] for f, d in fields], "sub": False}
            else:
                spec = {"fields": [f for f, _ in fields], "assign": True}
            self.associate(fresh, fam, spec)

        if sc == "nodefault":
            cls = new_leaf(c)
            thunk = lambda: self.define_ns(fam, self.uniq("N"), (base,), fields, cls,
                                           missing=("q",) if op["variant"] else ("p", "q"))
            if fam == "args":
                expect_rejected(thunk, "field without default", (fam_err,))
                then_ok()
            else:  # data fields need no values
                nscls = expect_ok(thunk, "data namespace with unassigned fields")
                self.data_cls[fresh] = nscls
                tree.data_fields[fresh] = [f for f, _ in fields]
        elif sc == "reassoc":
            target = new_leaf(self.c(op["cls2"])) if op["variant"] else self.cls(c)
            with_fields = fields if op["variant"] == 2 else ()
            expect_rejected(lambda: self.define_ns(fam, self.uniq("N"), (ns_of(c),), with_fields, target),
                            "re-association of an inheriting namespace class")
        elif sc == "twobases":
            plain = type("Plain", (), {})
            v = op["variant"]
            if v == 0 or not has(c):
                bases, f, rc = (base, plain), fields, new_leaf(c)
            elif v == 1:
                bases, f, rc = (ns_of(c), plain), (), None
            else:
                nofield = expect_ok(lambda: self.define_ns(fam, self.uniq("B"), (base,)), "field-less base")
                bases, f, rc = (nofield, base), fields, new_leaf(c)
            expect_rejected(lambda: self.define_ns(fam, self.uniq("N"), bases, f, rc), "two base classes")
        elif sc == "inherit_define":
            expect_rejected(lambda: self.define_ns(fam, self.uniq("N"), (ns_of(c),), fields),
                            "inheriting and defining fields")
        elif sc == "unassoc_fields":
            expect_rejected(lambda: self.define_ns(fam, self.uniq("N"), (base,), fields),
                            "fields without an associated render class")
        elif sc == "assoc_nofields":
            cls = new_leaf(c)
            expect_rejected(lambda: self.define_ns(fam, self.uniq("N"), (base,), (), cls),
                            "association of a class without fields")
            then_ok()
        elif sc == "second":
            expect_rejected(lambda: self.define_ns(fam, self.uniq("N"), (base,), fields, self.cls(c)),
                            "second namespace class for the same render class", (fam_err,))
        elif sc == "required_param":
            cls = new_leaf(c)
            if op["variant"] == 0:
                extra = {"__init__": lambda self, need: None}
            elif op["variant"] == 1:
                extra = {"__init__": lambda self, opt=0, *, need: None}
            else:
                extra = {"__new__": lambda cls, need, *a, **k: base.__new__(cls)}
            expect_rejected(lambda: self.define_ns(fam, self.uniq("N"), (base,), fields, cls, extra=extra),
                            "constructor with a required parameter", (TypeError, T.RenderArgsDataError))
            then_ok()
        elif sc == "base_nofields":
            b = expect_ok(lambda: self.define_ns(fam, self.uniq("B"), (base,)), "field-less unassociated base")
            for what, thunk in (("instantiation", lambda: b()), ("get_render_cls()", lambda: b.get_render_cls())):
                try:
                    res = thunk()
                except T.UnassociatedNamespaceError:
                    pass
                except Exception as e:
                    self.fail(f"{what} of an unassociated namespace class raised {type(e).__name__}: {e}",
                              "wrong_exception", op="define", sc=sc)
                else:
                    self.fail(f"{what} of an unassociated namespace class succeeded: {res!r}", "accepted", sc=sc)
            cls = new_leaf(c)
            nscls = expect_ok(lambda: self.define_ns(fam, self.uniq("N"), (b,), fields, cls),
                              "namespace class derived from a field-less base")
            if fam == "args":
                self.args_cls[fresh] = nscls
                tree.args_fields[fresh] = list(fields)
            else:
                self.data_cls[fresh] = nscls
                tree.data_fields[fresh] = [f for f, _ in fields]
        elif sc == "inherit":
            sub = expect_ok(lambda: self.define_ns(fam, self.uniq("S"), (ns_of(c),)), "inheriting namespace class")
            if sub.get_render_cls() is not self.cls(c):
                self.fail("inheriting namespace class is not associated with its parent's render class", "inherit")
            if list(sub.get_fields()) != list(ns_of(c).get_fields()):
                self.fail("inheriting namespace class has different fields", "inherit")
            if fam == "args":
                obj, m = self.attempt("ns", lambda: sub(), lambda: tree.default_ns(c))
                self.check_ns(obj, m, "instance of inheriting namespace class")
                self.add_ns(obj, m)
        else:
            raise AssertionError(sc)

    # -- end of program ---------------------------------------------------------------------
    def finish(self):
        self.opno, self.opdesc = self.opno + 1, "final default sets"
        tree = self.tree
        for c in range(ROOT, tree.n):
            self.opdesc = f"final RenderArgs({self.cname(c)})"
            obj, m = self.attempt("final_default", lambda: R.RenderArgs(self.cls(c)), lambda: tree.default_args(c))
            self.check_args(obj, m, "default set", "default_set")
            if tree.has_args(c):
                self.opdesc = f"final {self.cname(c)}.Args()"
                obj, m = self.attempt("final_default_ns", lambda: self.cls(c).Args(), lambda: tree.default_ns(c))
                self.check_ns(obj, m, "default namespace", "default_set")
        self.verify_world("final default-set construction")

    def cleanup(self):
        interned = getattr(R.RenderArgs, "_interned", None)
        if isinstance(interned, dict):
            for cls in self.classes:
                interned.pop(cls, None)


def check_program(case, rec):
    env.reset()
    w = World(case, rec)
    try:
        for no, op in enumerate(case["ops"]):
            w.run_op(no, op)
        w.finish()
        depth = max(w.tree.depth(c) for c in range(w.n0))
        rec.label(f"depth:{depth}", "has_mixed" if w.mixed else "no_mixed",
                  "has_rejection" if w.rejected else "no_rejection",
                  "args_levels>=2" if any(len(w.tree.args_mro(c)) >= 2 for c in range(w.n0)) else "args_levels<2")
    finally:
        w.cleanup()


CLAUSES = [
    Clause(
        "programs",
        check_program,
        lambda: _programs(False),
        budget={"quick": 1500, "thorough": 60000},
        floors={
            # per-program classes (fractions of programs)
            "has_mixed": 0.2, "has_rejection": 0.5, "args_levels>=2": 0.5, "depth:4": 0.1,
            # per-op counts relative to the number of programs
            "op:or": 0.5, "op:args": 0.9, "convert:up": 0.2, "convert:down": 0.05, "or:same_class_ns": 0.15,
            "ror:same_class_ns": 0.05, "res_nondefault:convert_up": 0.01, "res_nondefault:convert_down": 0.01,
            "result_is_existing_object": 0.2, "rej:args": 0.1, "contains:True": 0.05, "contains:False": 0.03,
        },
        doc="op programs on a random class tree, lock-step with the reference model + whole-pool re-verification",
    ),
    Clause(
        "definitions",
        check_program,
        lambda: _programs(True),
        budget={"quick": 600, "thorough": 12000},
        floors={"has_rejection": 0.7, "op:define": 1.5, **{f"def:{sc}": 0.08 for sc in DEF_SCENARIOS}},
        doc="namespace-class definition rules (rejections leave no residue) mixed with a few ordinary ops",
    ),
]
