"""C14 — terminal access is serialized across threads and processes."""

from __future__ import annotations

import json
import os
import subprocess
import sys

from hypothesis import strategies as st

from ..core import HERE, Clause, HarnessError, Violation

META = {
    "thorough_scale": 3,
    "level": "exploration",
    "rule": (
        "Engine A (clause schedules): utils._tty_lock / _rlock_type / mp_RLock are replaced by instrumented "
        "re-entrant locks whose acquire/release are scheduling points of a cooperative scheduler; 2-4 real threads "
        "run generated programs of {call a lock_tty-decorated probe (possibly nested re-entrantly), call an "
        "UrwidImageScreen.write/flush/get_available_raw_input/draw_screen whose base-class body is the probe, "
        "Process.start() through the library's real start wrapper with the original start replaced by a recorder}; "
        "the interleaving is chosen by a generated schedule (list of integers). A monitor inside the probe body "
        "asserts no other thread is inside a synchronized body; nested calls by the owner must succeed; no "
        "deadlock; after a start the process carries the current (multi-process) lock. Engine B (clause "
        "processes): for each start method fork/spawn/forkserver real parent threads, children and grandchildren "
        "run probe loops doing check-and-set on a shared-memory word while the main thread keeps starting "
        "processes; a query variant sends id-carrying requests through query_terminal to a responder on a real "
        "pty (controlling terminal) and must get exactly its own reply. Non-trivial = schedule in which a "
        "Process.start() runs while another thread is waiting for, or between the two acquisitions of, the old "
        "lock; distinct by hashed event trace."
    ),
    "assumptions": [
        "engine A owns thread schedules at lock-operation granularity; engine B samples OS process schedules (a race "
        "needing one specific cross-process interleaving may be missed)",
        "Process.start() is never issued from inside a synchronized call (documented as unsupported)",
        "engine B time-outs are inconclusive (exit 2), never violations",
    ],
}

U = W = None
ORIG_START = None


def setup():
    global U, W, ORIG_START
    from .. import simtty

    simtty.install()  # a pty as the active terminal, so that Process.start/run get wrapped
    import term_image.utils as _U
    import term_image.widget._urwid as _W

    U, W = _U, _W
    from multiprocessing import Process

    if getattr(Process.start, "__wrapped__", None) is None:
        raise RuntimeError("Process.start is not wrapped by term_image.utils")
    ORIG_START = U._process_start_wrapper.__wrapped__


# ---------------------------------------------------------------------------------------- engine A

@st.composite
def programs(draw):
    nthreads = draw(st.integers(2, 4))
    threads = []
    for _ in range(nthreads):
        acts = []
        for _ in range(draw(st.integers(1, 4))):
            k = draw(st.sampled_from(["probe", "probe", "probe", "start", "urwid", "probe_fail", "probe2"]))
            if k == "probe":
                acts.append(["probe", draw(st.integers(0, 2))])
            elif k == "probe_fail":  # the innermost synchronized call raises; later calls must still be serialized
                acts.append(["probe_fail", draw(st.integers(0, 2))])
            elif k == "probe2":  # a second lock_tty() wrapper around the very same function
                acts.append(["probe2", draw(st.integers(0, 1))])
            elif k == "urwid":
                acts.append(["urwid", draw(st.sampled_from(["write", "flush", "get_available_raw_input", "draw_screen"]))])
            else:
                acts.append(["start"])
        threads.append(acts)
    return {"threads": threads, "schedule": draw(st.lists(st.integers(0, 5), min_size=1, max_size=60))}


def check_schedule(c, rec):
    import urwid

    from ..sched import Deadlock, ProcSLock, Scheduler, ThreadSLock

    sched = Scheduler(c["schedule"])
    saved = {k: getattr(U, k) for k in ("_tty_lock", "_rlock_type", "mp_RLock", "_cell_size_lock", "_cell_size_cache", "Array")}
    base = urwid.raw_display.Screen
    saved_base = {m: getattr(base, m) for m in ("write", "flush", "get_available_raw_input", "draw_screen")}
    nlocks = [0]

    def new_mp_lock():
        nlocks[0] += 1
        return ProcSLock(sched, f"mp{nlocks[0]}")

    class FakeArray(list):
        def __init__(self, typ, init):
            super().__init__(init)
            self._lock = new_mp_lock()

        def get_lock(self):
            return self._lock

    U._tty_lock = ThreadSLock(sched, "tty0")
    U._rlock_type = ThreadSLock
    U.mp_RLock = new_mp_lock
    U._cell_size_lock = ThreadSLock(sched, "cell0")
    U._cell_size_cache = [0] * 4
    U.Array = FakeArray
    started = []
    U._process_start_wrapper.__wrapped__ = lambda self, *a, **k: started.append((self, U._tty_lock))
    mon = {"owner": None, "depth": 0, "overlap": None, "entries": 0}

    class Boom(Exception):
        pass

    def body(depth, fail=False):
        me = sched.me()
        if mon["owner"] is not None and mon["owner"] is not me:
            mon["overlap"] = (mon["owner"].name, me.name)
        prev = mon["owner"]
        mon["owner"] = me
        mon["depth"] += 1
        mon["entries"] += 1
        sched.point("inside")
        try:
            if depth > 0:
                probe(depth - 1, fail)
            elif fail:
                raise Boom()
            sched.point("inside2")
        finally:
            mon["depth"] -= 1
            if mon["depth"] == 0:
                mon["owner"] = None
            elif prev is not me:
                mon["owner"] = prev

    def raw_probe(depth, fail=False):
        body(depth, fail)

    probe = U.lock_tty(raw_probe)
    probe2 = U.lock_tty(raw_probe)  # decorating the same function again must give a synchronized callable again

    base.write = lambda self, data: body(0)
    base.flush = lambda self: body(0)
    base.get_available_raw_input = lambda self: body(0)
    base.draw_screen = lambda self, size, canvas: body(0)
    screen = object.__new__(W.UrwidImageScreen)
    screen._ti_screen_canv = None
    screen._ti_image_cviews = frozenset()
    from multiprocessing import Process

    checks = []

    def make(acts):
        def run():
            for a in acts:
                if a[0] == "probe":
                    probe(a[1])
                elif a[0] == "probe2":
                    probe2(a[1])
                elif a[0] == "probe_fail":
                    try:
                        probe(a[1], True)
                    except Boom:
                        pass
                elif a[0] == "urwid":
                    if a[1] == "write":
                        screen.write("x")
                    elif a[1] == "flush":
                        screen.flush()
                    elif a[1] == "get_available_raw_input":
                        screen.get_available_raw_input()
                    else:
                        screen.draw_screen((1, 1), None)
                else:
                    p = Process(target=print)
                    p.start()
                    checks.append((p, U._tty_lock))
        return run

    for i, acts in enumerate(c["threads"]):
        sched.spawn(f"T{i}", make(acts))
    err = None
    try:
        trace = sched.run()
    except Deadlock as e:
        err = Violation(f"deadlock under schedule {c['schedule']}: {e}; threads={c['threads']}", {"kind": "deadlock"})
        trace = sched.trace
    finally:
        for k, v in saved.items():
            setattr(U, k, v)
        for m, v in saved_base.items():
            setattr(base, m, v)
        U._process_start_wrapper.__wrapped__ = ORIG_START
    if err:
        raise err
    what = f"threads={c['threads']} schedule={c['schedule']}"
    for t in sched.threads:
        if t.exc is not None:
            raise Violation(f"thread {t.name} raised {type(t.exc).__name__}: {t.exc} [{what}]", {"kind": "thread_exception"})
    if mon["overlap"]:
        raise Violation(f"two synchronized bodies ran concurrently: {mon['overlap']} [{what}]\n  trace tail: {trace[-14:]}", {"kind": "overlap"})
    nstarts = sum(1 for acts in c["threads"] for a in acts if a[0] == "start")
    if len(started) != nstarts:
        raise Violation(f"{len(started)} processes started, expected {nstarts} [{what}]", {"kind": "starts"})
    for p, lock_after in started:
        if getattr(p, "_tty_lock", None) is not lock_after or not isinstance(lock_after, ProcSLock):
            raise Violation(f"started process does not carry the current multi-process lock ({getattr(p, '_tty_lock', None)} vs {lock_after}) [{what}]", {"kind": "lock_handover"})
    if nlocks[0] > 2:
        raise Violation(f"the lock was swapped {nlocks[0]} times (tty + cell-size = 2 expected at most) [{what}]", {"kind": "reswap"})
    # non-triviality: some thread was blocked on / had passed a scheduling point for the old lock while a start ran
    waited_old = any(ev[1] == ("blocked", "tty0") for ev in trace)
    rec.label("with_start" if nstarts else "no_start", "blocked_on_old" if waited_old and nstarts else "plain",
              "urwid" if any(a[0] == "urwid" for acts in c["threads"] for a in acts) else "no_urwid")
    if nstarts and len(c["threads"]) >= 2:
        rec.nontriv([[(n, w if isinstance(w, str) else list(w)) for n, w in trace][:80]])


# ---------------------------------------------------------------------------------------- engine A': real queries under owned schedules

QUERY_OPS = ["nv", "colors", "cell", "kitty", "probe", "poll", "poll", "poll_read", "start"]


@st.composite
def query_programs(draw):
    from .c12 import color_spec

    nthreads = draw(st.integers(2, 4))
    threads = []
    pid = 0
    for _ in range(nthreads):
        acts = []
        for _ in range(draw(st.integers(1, 4))):
            k = draw(st.sampled_from(QUERY_OPS))
            if k == "probe":
                pid += 1
                acts.append(["probe", 100 + pid])
            else:
                acts.append([k])
        threads.append(acts)
    if not any(a[0] in ("poll", "poll_read") for t in threads for a in t):
        threads[-1].append(["poll"])
    if not any(a[0] in ("nv", "colors", "kitty") for t in threads for a in t):
        threads[0].insert(0, [draw(st.sampled_from(["nv", "colors", "kitty"]))])
    name = draw(st.sampled_from(["kitty", "konsole", "WezTerm", "XTerm"]))
    profile = {
        "xtversion": draw(st.sampled_from([None, ["paren", name, "1.2.3"], ["space", name, "0.26.5"]])),
        "fg": draw(st.one_of(st.none(), color_spec())), "bg": draw(st.one_of(st.none(), color_spec())),
        "osc_term": draw(st.sampled_from(["ST", "BEL"])), "da1": True,
        "winops14": draw(st.sampled_from([None, [600, 800], [480, 1280]])),
        "winops16": draw(st.sampled_from([None, None, [20, 10], [18, 9]])),
        "kitty": draw(st.sampled_from([None, "OK", "OK", "ENOTSUP:c is not supported"])),
        # reply scheduling: every reply well inside the query timeout (3 replies at most per query)
        "delays": draw(st.lists(st.sampled_from([0.0, 0.0, 0.001, 0.01]), min_size=1, max_size=3)),
    }
    return {"threads": threads, "profile": profile, "win": [draw(st.integers(1, 120)), draw(st.integers(1, 50)), 0, 0],
            "schedule": draw(st.lists(st.integers(0, 5), min_size=1, max_size=60))}


def check_query_schedule(c, rec):
    """Real query functions of the library on the simulated terminal, real threads, schedule owned by the
    harness (scheduling points = every acquire/release of the terminal lock).  Every query must return exactly
    the reply the terminal gave to it; a thread that just reads pending input (an input loop) must get nothing,
    since no keyboard input is ever injected: anything it gets is (part of) a reply that belongs to a querying
    thread."""
    from multiprocessing import Process

    from .. import simtty
    from ..ref import queries as R
    from ..sched import Deadlock, ProcSLock, Scheduler, ThreadSLock
    import term_image.image.kitty as K

    T = simtty.TERM
    p = c["profile"]
    sched = Scheduler(c["schedule"])
    saved = {k: getattr(U, k) for k in ("_tty_lock", "_rlock_type", "mp_RLock", "_cell_size_lock", "_cell_size_cache", "Array",
                                        "_queries_enabled", "_swap_win_size", "_query_timeout")}
    saved_env = {k: os.environ.pop(k, None) for k in ("TERM_PROGRAM", "TERM_PROGRAM_VERSION", "SHELL")}
    nlocks = [0]

    def new_mp_lock():
        nlocks[0] += 1
        return ProcSLock(sched, f"mp{nlocks[0]}")

    class FakeArray(list):
        def __init__(self, typ, init):
            super().__init__(init)
            self._lock = new_mp_lock()

        def get_lock(self):
            return self._lock

    U._tty_lock = ThreadSLock(sched, "tty0")
    U._rlock_type = ThreadSLock
    U.mp_RLock = new_mp_lock
    U._cell_size_lock = ThreadSLock(sched, "cell0")
    U._cell_size_cache = [0] * 4
    U.Array = FakeArray
    U._queries_enabled, U._swap_win_size, U._query_timeout = True, False, 0.1
    U._process_start_wrapper.__wrapped__ = lambda self, *a, **k: None
    simtty.set_winsize(*c["win"])
    T.reset(p)
    results = []  # (thread, op, got, expected)
    kitty_reply = b"" if p["kitty"] is None else b"\x1b_Gi=31;" + p["kitty"].encode() + b"\x1b\\"
    nv = U.get_terminal_name_version.__wrapped__  # not through @cached: its internal (real) lock is not a scheduling point
    colors = U.get_fg_bg_colors.__wrapped__

    def make(name, acts):
        def run():
            for a in acts:
                k = a[0]
                if k == "nv":
                    results.append((name, k, nv(), R.name_version(p, {})))
                elif k == "colors":
                    results.append((name, k, colors(), R.colors(p)))
                elif k == "cell":
                    U._cell_size_cache[:] = [0] * 4
                    got = U.get_cell_size()
                    results.append((name, k, got and tuple(got), R.cell_size(p, c["win"], False, {})))
                elif k == "kitty":
                    results.append((name, k, K._query_support(), kitty_reply + b"\x1b["))
                elif k == "probe":
                    msg = b"\x1b]7777;%d\x1b\\" % a[1]
                    results.append((name, k, U.query_terminal(msg, lambda s: not s.endswith(b"\x1b\\")), msg))
                elif k == "poll":
                    results.append((name, k, U.read_tty_all(), b""))
                elif k == "poll_read":
                    results.append((name, k, U.read_tty(), b""))
                else:
                    Process(target=print).start()
        return run

    for i, acts in enumerate(c["threads"]):
        sched.spawn(f"T{i}", make(f"T{i}", acts))
    err = None
    trace = []
    try:
        trace = sched.run()
    except Deadlock as e:
        err = Violation(f"deadlock under schedule {c['schedule']}: {e}; threads={c['threads']}", {"kind": "deadlock"})
    finally:
        for k, v in saved.items():
            setattr(U, k, v)
        for k, v in saved_env.items():
            if v is not None:
                os.environ[k] = v
        U._process_start_wrapper.__wrapped__ = ORIG_START
    if err:
        raise err
    what = f"threads={c['threads']} schedule={c['schedule']} profile={p} win={c['win']}"
    for t in sched.threads:
        if t.exc is not None:
            raise Violation(f"thread {t.name} raised {type(t.exc).__name__}: {t.exc} [{what}]",
                            {"kind": "thread_exception", "exc": type(t.exc).__name__})
    for name, k, got, exp in results:
        if got != exp:
            if k.startswith("poll"):
                raise Violation(f"thread {name} only read pending terminal input and received {got!r}: (part of) a reply that "
                                f"belongs to a querying thread [{what}]\n  results={results}", {"kind": "reply_to_other_caller"})
            raise Violation(f"thread {name}: {k} returned {got!r}, the terminal's reply to it means {exp!r} [{what}]\n  results={results}",
                            {"kind": "wrong_reply", "op": k})
    left = T.unread_bytes()
    if left:
        raise Violation(f"reply bytes {left!r} were left unread by the query they answer (the next reader gets them) [{what}]",
                        {"kind": "reply_left_unread"})
    nq = sum(1 for r in results if not r[1].startswith("poll"))
    blocked = any(isinstance(ev[1], tuple) and ev[1][0] == "blocked" and ev[1][1].startswith(("tty", "mp")) for ev in trace)
    rec.label("contended" if blocked else "uncontended", "with_start" if nlocks[0] else "no_start",
              *sorted({r[1] for r in results}))
    rec.count("queries", nq)
    if blocked and nq:
        rec.nontriv([[(n, w if isinstance(w, str) else list(w)) for n, w in trace][:80]])


# ---------------------------------------------------------------------------------------- late replies

@st.composite
def late_programs(draw):
    nthreads = draw(st.integers(1, 3))
    n = 0
    threads = []
    for _ in range(nthreads):
        acts = []
        for _ in range(draw(st.integers(1, 4))):
            n += 1
            acts.append(["ask", 200 + n])
        threads.append(acts)
    # per reply (in the order the requests reach the terminal): on time, or later than the 0.1 s query timeout
    delays = [draw(st.sampled_from([0.0, 0.0, 0.03, 0.15, 0.25])) for _ in range(n)]
    if not any(d > 0.1 for d in delays):
        delays[draw(st.integers(0, n - 1))] = 0.15
    return {"threads": threads, "delays": delays, "schedule": draw(st.lists(st.integers(0, 5), min_size=1, max_size=40)),
            # the terminal is already in no-echo mode when the queries are made (a full-screen program is running)
            "echo_off": draw(st.booleans())}


def check_late_replies(c, rec):
    """A reply that arrives after its query has timed out belongs to nobody any more: "Any unread input is
    discarded before the query" (query_terminal).  Callers are synchronized functions that send an id-carrying
    query and then keep the terminal for 0.3 s (the late reply arrives meanwhile); under every schedule each
    query gets exactly its own reply or - when that reply is late - nothing, never the reply to another one."""
    from .. import simtty
    from ..sched import Deadlock, Scheduler, ThreadSLock

    T = simtty.TERM
    sched = Scheduler(c["schedule"])
    saved = {k: getattr(U, k) for k in ("_tty_lock", "_queries_enabled", "_query_timeout")}
    U._tty_lock = ThreadSLock(sched, "tty0")
    U._queries_enabled, U._query_timeout = True, 0.1
    T.reset({"delays": list(c["delays"])})
    order = []  # ids in the order their requests reach the terminal
    results = []
    import termios

    attr0 = termios.tcgetattr(U._tty_fd)
    if c.get("echo_off"):
        noecho = termios.tcgetattr(U._tty_fd)
        noecho[3] &= ~termios.ECHO
        termios.tcsetattr(U._tty_fd, termios.TCSANOW, noecho)

    @U.lock_tty
    def ask(pid):
        msg = b"\x1b]7777;%d\x1b\\" % pid
        order.append(pid)
        r = U.query_terminal(msg, lambda s: not s.endswith(b"\x1b\\"))
        T.idle(0.3)
        return r

    def make(name, acts):
        def run():
            for a in acts:
                results.append((name, a[1], ask(a[1])))
        return run

    for i, acts in enumerate(c["threads"]):
        sched.spawn(f"T{i}", make(f"T{i}", acts))
    err = None
    try:
        sched.run()
    except Deadlock as e:
        err = Violation(f"deadlock under schedule {c['schedule']}: {e}", {"kind": "deadlock"})
    finally:
        for k, v in saved.items():
            setattr(U, k, v)
        T.idle(1.0)
        left = T.unread_bytes()
        attr1 = termios.tcgetattr(U._tty_fd)
        termios.tcsetattr(U._tty_fd, termios.TCSANOW, attr0)
    if err:
        raise err
    what = f"threads={c['threads']} delays={c['delays']} schedule={c['schedule']} echo_off={c.get('echo_off')}"
    if bool(attr1[3] & termios.ECHO) == bool(c.get("echo_off")):
        raise Violation(f"input echo is {'on' if attr1[3] & termios.ECHO else 'off'} after the queries, it was "
                        f"{'off' if c.get('echo_off') else 'on'} before [{what}]", {"kind": "echo_not_restored"})
    rec.label("echo_off_before" if c.get("echo_off") else "echo_on_before")
    for t in sched.threads:
        if t.exc is not None:
            raise Violation(f"thread {t.name} raised {type(t.exc).__name__}: {t.exc} [{what}]", {"kind": "thread_exception"})
    late = 0
    for name, pid, got in results:
        d = c["delays"][order.index(pid)]
        exp = b"\x1b]7777;%d\x1b\\" % pid if d < 0.1 else b""
        late += d > 0.1
        if got != exp:
            raise Violation(f"thread {name}: query {pid} (reply delayed {d}s, timeout 0.1s) returned {got!r}, expected {exp!r}: a reply "
                            f"reached a caller it does not belong to [{what}]\n  request order={order} results={results}",
                            {"kind": "late_reply_misdelivered"})
    rec.label("late_then_query" if any(c["delays"][i] > 0.1 for i in range(len(order) - 1)) else "late_last_only")
    rec.count("late_replies", late)
    if late and len(order) >= 2:
        rec.nontriv([c["delays"], [len(t) for t in c["threads"]], c["schedule"][:20]])


# ---------------------------------------------------------------------------------------- engine B

def run_procs(method, variant, rounds, seed):
    script = os.path.join(HERE, "vf", "c14_procs.py")
    env = dict(os.environ)
    try:
        p = subprocess.run([sys.executable, script, method, variant, str(rounds), str(seed)], stdin=subprocess.DEVNULL,
                           stdout=subprocess.PIPE, stderr=subprocess.PIPE, timeout=240, env=env, cwd=HERE)
    except subprocess.TimeoutExpired:
        raise HarnessError(f"engine B ({method}, {variant}) timed out (inconclusive)")
    lines = [ln for ln in p.stdout.decode(errors="replace").splitlines() if ln.startswith("RESULT ")]
    if not lines:
        raise HarnessError(f"engine B ({method}, {variant}) produced no result (rc={p.returncode}):\n"
                           f"{p.stdout.decode(errors='replace')[-1500:]}\n{p.stderr.decode(errors='replace')[-1500:]}")
    return json.loads(lines[-1][len("RESULT "):])


def proc_cases(tier):
    n = 1 if tier == "quick" else 12
    out = []
    for method in ("fork", "spawn", "forkserver"):
        for variant in ("probe", "query"):
            for i in range(n):
                out.append([method, variant, i])
    return out


def check_procs(case, rec):
    method, variant, i = case
    seed = int(os.environ.get("VERIF_SEED", "1")) * 1000 + i
    res = run_procs(method, variant, 3 if variant == "probe" else 2, seed)
    what = f"start method {method}, variant {variant}, seed {seed}: {res}"
    if res.get("inconclusive"):
        raise HarnessError(f"engine B inconclusive: {what}")
    if res["overlaps"]:
        raise Violation(f"{res['overlaps']} overlapping executions of synchronized functions across threads/processes [{what}]",
                        {"kind": "process_overlap", "method": method})
    if res.get("wrong_replies") or res.get("lost_replies"):
        raise Violation(f"query replies mixed up between callers [{what}]", {"kind": "reply_mixup", "method": method})
    if res["bad_exit"]:
        raise Violation(f"child processes failed [{what}]", {"kind": "child_failed", "method": method})
    if res["entries"] < 10:
        raise HarnessError(f"engine B exercised too little: {what}")
    rec.label(f"method:{method}", f"variant:{variant}")
    rec.count("process_entries", res["entries"])
    rec.count("processes", res["processes"])
    rec.nontriv([method, variant, i])


# ---------------------------------------------------------------------------------------- re-entrancy on the real locks

def check_reentrant(case, rec):
    """The library's real lock objects (thread-level, and the multi-process one installed by a start)
    must be re-entrant within a thread: a nested synchronized call returns."""
    import threading
    from multiprocessing import Process

    depth, swap_first = case
    done = threading.Event()

    @U.lock_tty
    def f(d):
        if d:
            f(d - 1)

    def run():
        if swap_first:
            U._process_start_wrapper.__wrapped__ = lambda self, *a, **k: None
            try:
                Process(target=print).start()
            finally:
                U._process_start_wrapper.__wrapped__ = ORIG_START
        f(depth)
        U.write_tty(b"")  # a library function that is itself synchronized, nested in nothing
        done.set()

    t = threading.Thread(target=run, daemon=True)
    t.start()
    if not done.wait(20):
        raise Violation(f"a nested (depth {depth}) call of a lock_tty-synchronized function did not return within 20 s "
                        f"(lock type {type(U._tty_lock).__name__}; after a process start: {swap_first}): the lock is not re-entrant",
                        {"kind": "not_reentrant"})
    rec.label("after_start" if swap_first else "thread_lock")
    rec.nontriv([depth, swap_first])


CLAUSES = [
    Clause("schedules", check_schedule, programs, budget={"quick": 1500, "thorough": 40000},
           floors={"with_start": 0.3, "blocked_on_old": 0.03}),
    Clause("query_schedules", check_query_schedule, query_programs, budget={"quick": 600, "thorough": 20000},
           floors={"contended": 0.3}),
    Clause("late_replies", check_late_replies, late_programs, budget={"quick": 300, "thorough": 8000},
           floors={"late_then_query": 0.3}),
    Clause("reentrant", check_reentrant, None, enumerate=lambda tier: [[d, s_] for s_ in (False, True) for d in (1, 2, 3)],
           enum_size=lambda t: 6, max_shards=1),
    Clause("processes", check_procs, None, enumerate=proc_cases, enum_size=lambda t: len(proc_cases(t)), max_shards=6, enum_per_shard=1),
]
