"""C13 — terminal attributes are always put back exactly as found (fault enumeration)."""

from __future__ import annotations

import io
import os
import sys
import termios

from hypothesis import strategies as st

from ..core import Clause, Violation
from ..faults import CallFaults, Proxy

META = {
    "thorough_scale": 3,
    "level": "fault_enumeration",
    "rule": (
        "Generated (initial termios attribute set over the pty slave: subsets of ICANON/ECHO/ECHOE/ISIG/IEXTEN, "
        "ICRNL/IXON/INLCR, OPOST/ONLCR, VMIN/VTIME 0..255) x operation (query_terminal, read_tty with timeout "
        "None/0/>0/<0-with-data, min 0..3, echo on/off, read_tty_all, write_tty, get_cell_size, "
        "get_fg_bg_colors, get_terminal_name_version, KittyImage.is_supported, Renderable.draw(echo_input=False), "
        "a `more` predicate that raises at its j-th call) x terminal reply profile. For each such configuration "
        "a fault-free dry run numbers every wrapped system-call boundary (os.read, os.write, select, tcdrain, "
        "tcsetattr, tcgetattr, monotonic) and then EVERY boundary is injected, before and after the real call, "
        "with KeyboardInterrupt and with RuntimeError; afterwards termios.tcgetattr(slave) must equal the initial "
        "set field for field. Excluded (counted): a fault *before* the call that restores the original attributes "
        "(its own clean-up). Non-trivial = a fault after the first attribute change and before the restoring call, "
        "from a non-default initial set; distinct by (op, initial-set hash, fault site, before/after, exception)."
    ),
    "assumptions": [
        "crash points are call boundaries of the tty system-call wrappers, not arbitrary bytecode boundaries",
        "a signal landing before/inside the restoring tcsetattr itself is outside the property ('before its clean-up')",
    ],
}

T = U = TI = I = RR = simtty = None
F = CallFaults()
H = None


def setup():
    global T, U, TI, I, RR, H, simtty
    from .. import hren
    from .. import simtty as _simtty

    simtty = _simtty
    T = simtty.install()
    import term_image
    import term_image.image as _I
    import term_image.renderable._renderable as _RR
    import term_image.utils as _U

    U, TI, I, RR = _U, term_image, _I, _RR
    sel, mono = T.select, T.monotonic
    U.os = Proxy(os, {"read": F.wrap("os.read", os.read), "write": F.wrap("os.write", os.write)})
    tproxy = Proxy(termios, {
        "tcgetattr": F.wrap("tcgetattr", termios.tcgetattr),
        "tcsetattr": F.wrap("tcsetattr", termios.tcsetattr, lambda fd, when, attrs: _norm(attrs)),
        "tcdrain": F.wrap("tcdrain", termios.tcdrain),
    })
    U.termios = tproxy
    RR.termios = tproxy
    U.select = F.wrap("select", sel)
    U.monotonic = F.wrap("monotonic", mono)
    RR.sleep = lambda *_: None
    H = hren.classes()


def _norm(attrs):
    a = list(attrs)
    a[6] = [bytes(c) if isinstance(c, bytes) else c for c in a[6]]
    return a


LFLAGS = ["ICANON", "ECHO", "ECHOE", "ISIG", "IEXTEN"]
IFLAGS = ["ICRNL", "IXON", "INLCR"]
OFLAGS = ["OPOST", "ONLCR"]

OPS = ["query", "query_timeout", "read_none", "read_zero", "read_pos", "read_neg", "read_min", "read_all", "write",
       "cell_size", "colors", "name_version", "kitty", "draw", "draw_anim", "draw_nested", "more_raises"]


@st.composite
def cases(draw):
    c = {
        "lflag": draw(st.lists(st.sampled_from(LFLAGS), unique=True)),
        "iflag": draw(st.lists(st.sampled_from(IFLAGS), unique=True)),
        "oflag": draw(st.lists(st.sampled_from(OFLAGS), unique=True)),
        "vmin": draw(st.one_of(st.sampled_from([0, 1, 1, 255]), st.integers(0, 255))),
        "vtime": draw(st.one_of(st.sampled_from([0, 0, 1, 255]), st.integers(0, 255))),
        "op": draw(st.sampled_from(OPS)),
        "echo": draw(st.booleans()),
        "min": draw(st.integers(1, 3)),
        "input": draw(st.sampled_from(["", "a", "abc", "hello world", "\x1b[?62;4c"])),
        "raise_at": draw(st.integers(1, 3)),
        "reply": draw(st.booleans()),
        "delay": draw(st.sampled_from([0.0, 0.01, 0.029])),
        "winpix": draw(st.booleans()),
        # directed initial states: None = the generated flags above; "raw" = as after tty.setraw();
        # "already" = the terminal is already in the very mode the operation is about to set
        "preset": draw(st.sampled_from([None, None, None, "raw", "already"])),
    }
    return c


def initial_attrs(c):
    a = termios.tcgetattr(simtty_slave())
    for names, idx in ((c["iflag"], 0), (c["oflag"], 1), (c["lflag"], 3)):
        allf = {0: IFLAGS, 1: OFLAGS, 3: LFLAGS}[idx]
        for n in allf:
            bit = getattr(termios, n)
            if n in names:
                a[idx] |= bit
            else:
                a[idx] &= ~bit
    a[6][termios.VMIN] = c["vmin"]
    a[6][termios.VTIME] = c["vtime"]
    preset = c.get("preset")
    if preset == "raw":
        a[3] &= ~(termios.ICANON | termios.ECHO | termios.ISIG | termios.IEXTEN)
        a[6][termios.VMIN] = 1
        a[6][termios.VTIME] = 0
    elif preset == "already":
        a[3] &= ~termios.ICANON
        if c["echo"]:
            a[3] |= termios.ECHO
        else:
            a[3] &= ~termios.ECHO
        a[6][termios.VTIME] = 0
        a[6][termios.VMIN] = c["min"] if c["op"] == "read_min" else 0
    return a


def simtty_slave():
    return U._tty_fd


def reset_lib():
    U._queries_enabled = True
    U._swap_win_size = False
    U._query_timeout = 0.1
    U.get_fg_bg_colors._invalidate_cache()
    U.get_terminal_name_version._invalidate_cache()
    with U._cell_size_lock:
        U._cell_size_cache[:] = (0,) * 4
    for cls in (I.KittyImage, I.ITerm2Image):
        type.__setattr__(cls, "_supported", None)


def profile(c):
    if not c["reply"]:
        return {"da1": False, "delays": [0.0]}
    return {"fg": "rgb:1111/2222/3333", "bg": "rgb:0000/0000/0000", "xtversion": ["paren", "kitty", "0.26.5"],
            "winops16": [20, 10], "winops14": [480, 800], "kitty": "OK", "da1": True, "delays": [c["delay"]]}


class MoreRaises(Exception):
    pass


def run_op(c, out_stream):
    """Performs the operation once.  Returns nothing; exceptions propagate."""
    op = c["op"]
    if op == "query":
        U.query_terminal(b"\x1b[c", lambda s: not s.endswith(b"c"))
    elif op == "query_timeout":
        U.query_terminal(b"\x1b]7778;?\x1b\\", lambda s: True, 0.05)
    elif op == "read_none":
        U.read_tty(echo=c["echo"])
    elif op == "read_zero":
        U.read_tty(timeout=0.0, echo=c["echo"])
    elif op == "read_pos":
        U.read_tty(lambda s: len(s) < 5, 0.05, echo=c["echo"])
    elif op == "read_neg":
        n = len(c["input"])
        if n:
            U.read_tty(lambda s: len(s) < n, -1.0, echo=c["echo"])
    elif op == "read_min":
        if len(c["input"]) >= c["min"]:
            U.read_tty(lambda s: False, 0.05, c["min"], echo=c["echo"])
    elif op == "read_all":
        U.read_tty_all()
    elif op == "write":
        U.write_tty(b"hello\x1b[m")
    elif op == "cell_size":
        U.get_cell_size()
    elif op == "colors":
        U.get_fg_bg_colors()
    elif op == "name_version":
        U.get_terminal_name_version()
    elif op == "kitty":
        I.KittyImage.is_supported()
    elif op in ("draw", "draw_anim"):
        r = H["new"]("grid", 3, 2, 3 if op == "draw_anim" else 1, 1)
        real = sys.stdout
        sys.stdout = out_stream
        try:
            r.draw(loops=1, echo_input=False, check_size=False)
        finally:
            sys.stdout = real
    elif op == "draw_nested":
        # a composite renderable draws another instance of its own class while it is being drawn (same terminal)
        if "Nest" not in H:
            Grid = type(H["new"]("grid", 1, 1, 1, 1))

            class Nest(Grid):
                inner = None

                def _render_(self, render_data, render_args):
                    if self.inner is not None:
                        inner, self.inner = self.inner, None
                        inner.draw(loops=1, echo_input=False, check_size=False)
                    return super()._render_(render_data, render_args)

            H["Nest"] = Nest
        r = H["Nest"](3, 2, 1, 1)
        r.inner = H["Nest"](2, 1, 1, 1)
        real = sys.stdout
        sys.stdout = out_stream
        try:
            r.draw(loops=1, echo_input=False, check_size=False)
        finally:
            sys.stdout = real
    elif op == "more_raises":
        calls = [0]

        def more(s):
            calls[0] += 1
            if calls[0] >= c["raise_at"]:
                raise MoreRaises()
            return True

        U.read_tty(more, 0.05, echo=c["echo"])


EXCS = {"KeyboardInterrupt": KeyboardInterrupt, "RuntimeError": lambda: RuntimeError("injected")}


def check_case(c, rec):
    fd = simtty_slave()
    base = termios.tcgetattr(fd)
    out_stream = io.TextIOWrapper(os.fdopen(os.dup(fd), "wb", buffering=0), write_through=True)
    try:
        _check(c, rec, fd, out_stream)
    finally:
        F.reset()
        termios.tcsetattr(fd, termios.TCSANOW, base)
        termios.tcflush(fd, termios.TCIOFLUSH)
        T.drain_master()
        out_stream.close()
        H["forget"]()


def prepare(c, fd, init):
    F.enabled = False
    termios.tcsetattr(fd, termios.TCSANOW, init)
    termios.tcflush(fd, termios.TCIOFLUSH)
    T.drain_master()
    reset_lib()
    simtty.set_winsize(40, 12, 400 if c["winpix"] else 0, 240 if c["winpix"] else 0)
    T.reset(profile(c), zero_clock=True)
    if c["input"] and c["op"].startswith(("read", "more")):
        os.write(simtty.MASTER, c["input"].encode())
    F.enabled = True


def _check(c, rec, fd, out_stream):
    init = _norm(initial_attrs(c))
    termios.tcsetattr(fd, termios.TCSANOW, init)
    init = _norm(termios.tcgetattr(fd))  # what the kernel actually stores
    what = f"op={c['op']} preset={c.get('preset')} initial(l={c['lflag']} i={c['iflag']} o={c['oflag']} vmin={c['vmin']} vtime={c['vtime']}) echo={c['echo']} input={c['input']!r} reply={c['reply']}"

    def verify(label, sig):
        F.enabled = False
        now = _norm(termios.tcgetattr(fd))
        if now != init:
            diff = [i for i in range(7) if now[i] != init[i]]
            raise Violation(f"terminal attributes not restored after {label}: fields {diff} differ "
                            f"(lflag {init[3]:#x}->{now[3]:#x}, cc VMIN {init[6][termios.VMIN]!r}->{now[6][termios.VMIN]!r}, "
                            f"VTIME {init[6][termios.VTIME]!r}->{now[6][termios.VTIME]!r}) [{what}]", sig)

    def sequel(label, sig):
        """The application switches the terminal to another mode itself; the next, fault-free library operation must put
        THAT mode back - not something remembered from the earlier (failed) operation."""
        F.enabled = False
        alt = termios.tcgetattr(fd)
        alt[3] ^= termios.ICANON | termios.ECHO | termios.ISIG
        alt[6][termios.VMIN] = 2 if init[6][termios.VMIN] != 2 else 1
        alt[6][termios.VTIME] = 3 if init[6][termios.VTIME] != 3 else 0
        termios.tcsetattr(fd, termios.TCSANOW, alt)
        alt = _norm(termios.tcgetattr(fd))
        try:
            U.read_tty_all()
        except Exception as e:
            raise Violation(f"read_tty_all() after {label} raised {type(e).__name__}: {e} [{what}]", dict(sig, kind="sequel_exception"))
        now = _norm(termios.tcgetattr(fd))
        if now != alt:
            diff = [i for i in range(7) if now[i] != alt[i]]
            raise Violation(f"after {label}, the application changed the terminal mode and called read_tty_all(): the attributes "
                            f"were not put back as found: fields {diff} differ (lflag {alt[3]:#x}->{now[3]:#x}, VMIN "
                            f"{alt[6][termios.VMIN]!r}->{now[6][termios.VMIN]!r}) [{what}]", dict(sig, kind="sequel_not_restored"))

    # -- dry run -------------------------------------------------------------------
    prepare(c, fd, init)
    F.reset(None)
    outcome = "ok"
    try:
        run_op(c, out_stream)
    except MoreRaises:
        outcome = "more_raised"
    except simtty.UnboundedWait:
        F.enabled = False
        rec.label("skipped_unbounded")
        return
    except Exception as e:
        F.enabled = False
        raise Violation(f"fault-free run raised {type(e).__name__}: {e} [{what}]", {"kind": "dryrun_exception", "op": c["op"]})
    events = list(F.events)
    verify(f"a fault-free run ({outcome})", {"kind": "not_restored", "op": c["op"], "fault": "none"})
    rec.label(f"op:{c['op']}", f"outcome:{outcome}")
    sets = [i for i, e in enumerate(events) if e[0] == "tcsetattr"]
    first_change = next((i for i in sets if events[i][1] != init), None)
    excluded = 0
    injected = 0
    default_init = set(c["lflag"]) >= {"ICANON", "ECHO"}
    for i, (name, detail) in enumerate(events):
        for when in ("before", "after"):
            if name == "tcsetattr" and when == "before" and detail == init and first_change is not None and i > first_change:
                excluded += 1  # the restoring call itself: its own clean-up
                continue
            for ename, efac in EXCS.items():
                prepare(c, fd, init)

                def guard(ev, evs, _name=name, _detail=detail, _when=when):
                    # same call as in the dry run, and never the restoring call itself
                    if ev != (_name, _detail):
                        return False
                    if ev[0] == "tcsetattr" and _when == "before" and ev[1] == init and any(
                            e[0] == "tcsetattr" and e[1] != init for e in evs[:-1]):
                        return False
                    return True

                F.reset((i, when, efac, guard))
                try:
                    run_op(c, out_stream)
                    res = "returned"
                except KeyboardInterrupt:
                    res = "KeyboardInterrupt"
                except MoreRaises:
                    res = "more_raised"
                except simtty.UnboundedWait:
                    res = "unbounded"
                except Exception as e:
                    res = type(e).__name__
                fired = F.fired
                F.enabled = False
                if not fired:
                    continue  # the run diverged before reaching the boundary (reply timing): nothing injected
                injected += 1
                verify(f"{ename} injected {when} call #{i} ({name}) -> {res}",
                       {"kind": "not_restored", "op": c["op"], "site": name, "when": when, "exc": ename})
                sequel(f"{ename} injected {when} call #{i} ({name}) -> {res}",
                       {"op": c["op"], "site": name, "when": when, "exc": ename})
                between = first_change is not None and i >= first_change
                if between and not default_init:
                    rec.nontriv([c["op"], sorted(c["lflag"]), c["vmin"] % 3, c["vtime"] % 3, name, when, ename, i - first_change])
    rec.count("injected_runs", injected)
    rec.count("excluded_cleanup", excluded)
    rec.count("syscall_boundaries", len(events))


CLAUSES = [
    Clause("restore", check_case, cases, budget={"quick": 640, "thorough": 20000}, min_per_shard=6,
           floors={"op:query": 0.01}),
]
