"""C20 — style settings resolve instance -> nearest class -> default, and unset restores.

A case is a *program*: a random tree of subclasses below ``KittyImage`` / ``ITerm2Image``
(created with ``type(name, (Parent,), {})``), instances of them, and a list of set / unset /
invalid-write / observe operations.  The program is interpreted in lock-step against the
reference model ``vf.ref.styles.StyleModel`` (written from the documentation).  After every
operation the effective value of every setting is read back on *every* class and instance
(full snapshot) and compared with the model, so an operation that leaks to an ancestor or a
sibling, or a rejected write that still changed something, is seen immediately.

Two clauses share the interpreter:

* ``render_method`` — class-wide / instance-specific render method, observed by *rendering*
  (framing of the output decoded by this module: number of graphics transmissions / inline
  images and their ``r=`` / ``height=`` keys, GIF payload for iterm2 native animation),
  with and without per-call overrides;
* ``other_settings`` — ``forced_support`` (also observed through instantiation on an
  unsupported terminal), ``jpeg_quality`` and ``read_from_file`` (also observed through the
  encoding of the render payload), ``native_anim_max_bytes`` (one global; also observed
  through the documented warning), and per-call method overrides together with
  instance-level / class-level render-method *sets*.  Class-level render-method *unsets*
  are generated only in the first clause.
"""

from __future__ import annotations

import base64
import gc
import io
import re
import warnings

from hypothesis import strategies as st

from ..core import Clause, Violation
from ..ref import styles as M
from ..ref.styles import (FORCED_SUPPORT, JPEG_QUALITY, NATIVE_ANIM, READ_FROM_FILE, RENDER_METHOD,
                          UNSET, StyleModel)

META = {
    "level": "exploration",
    "rule": (
        "Hypothesis-generated programs: subclass tree (<= 7 generated classes, depth <= 4) below "
        "KittyImage and ITerm2Image (plus BaseImage / GraphicsImage / BlockImage as ancestor and sibling "
        "nodes), 0-3 instances per class (PIL-, PNG-file- and animated-GIF-sourced), 1-16 operations "
        "(set / unset / invalid write / instance-level write to a class-only setting / render with or "
        "without per-call override / instantiate / payload-encoding probe / native-animation warning "
        "probe), terminal identity.  After each operation all settings are read on all nodes and compared "
        "with the reference model.  Non-trivial = a node is unset while an ancestor holds a non-default "
        "value, or siblings (classes with one parent, instances of one class) see different effective "
        "values; distinct by (settings involved, tree shape, op-kind sequence).  The generator is biased "
        "(node selectors favour one root-to-leaf chain, values favour non-defaults, sets dominate the first "
        "half of a program and unsets the second, and 2/3 of the programs embed the pattern set-on-ancestor, "
        "set-on-node, observe, unset-node, observe at random positions); label floors guard the bias."
    ),
    "assumptions": [
        "render framing identifies the render method: kitty LINES = one transmission (r=1) per line, "
        "WHOLE = one transmission with r=<lines>; iterm2 LINES = one inline image (height=1) per line, "
        "WHOLE = one image with height=<lines>, ANIM (animated source) = one image whose payload is the "
        "GIF file; ANIM on a non-animated image is documented to behave as WHOLE",
        "a 2x2 RGB PNG file rendered at 2x2 cells of 4x8 px with the WHOLE method needs no image "
        "manipulation, so with read_from_file enabled the payload is the file's bytes",
        "wrong argument type -> TypeError, invalid value -> ValueError, instance-level write to a "
        "class-only property -> AttributeError (library-wide documented convention)",
        "bool values for the int-typed settings and `del cls.forced_support` are outside the documented "
        "domain and are not generated",
    ],
}

I = None
env = None
StyleError = None  # term_image.exceptions.StyleError, set by setup()
FILES = {}
_counter = [0]
_PRISTINE = []
_MISSING = object()
_PRIV = ("_render_method", "_forced_support", "_jpeg_quality", "_read_from_file", "_native_anim_max_bytes")

IDENTS = [
    ("xterm", "380"),
    ("", ""),
    ("kitty", "0.26.5"),
    ("konsole", "23.08.1"),
    ("wezterm", "20230712-072601-f4abf8fd"),
    ("iterm2", "3.4.19"),
]


def setup():
    global I, env, StyleError
    from .. import env as _env

    _env.install()
    import term_image.image as _I
    from PIL import Image
    from PIL.PngImagePlugin import PngInfo
    from term_image.exceptions import StyleError as _SE

    I, env, StyleError = _I, _env, _SE
    d = env.tmpdir()
    frames = []
    for i in (1, 2):
        f = Image.new("P", (2, 2), i)
        f.putpalette([0, 0, 0, 255, 0, 0, 0, 255, 0] + [0] * (253 * 3))
        frames.append(f)
    gif = d + "/c20-anim.gif"
    frames[0].save(gif, save_all=True, append_images=frames[1:], duration=100, loop=0)
    info = PngInfo()
    info.add_text("vf", "c20-source-file")
    png = d + "/c20-still.png"
    Image.new("RGB", (2, 2), (200, 10, 30)).save(png, pnginfo=info)
    FILES["gif"] = gif
    FILES["png"] = png
    with open(gif, "rb") as fh:
        FILES["gif_bytes"] = fh.read()
    with open(png, "rb") as fh:
        FILES["png_bytes"] = fh.read()
    FILES["pil"] = Image.new("RGB", (2, 2), (10, 200, 30))

    # pristine values of the private storage attributes, as after a fresh import
    del _PRISTINE[:]
    for cls in (I.BaseImage, I.GraphicsImage, I.TextImage, I.BlockImage, I.KittyImage, I.ITerm2Image,
                type(I.BaseImage), type(I.ITerm2Image)):
        state = {a: vars(cls).get(a, _MISSING) for a in _PRIV}
        if cls in (I.KittyImage, I.ITerm2Image):
            state["_forced_support"] = _MISSING  # set by vf.env.apply(), not by the library
            state["_render_method"] = "lines"
        if cls is type(I.ITerm2Image):
            state["_native_anim_max_bytes"] = 2 * 2**20
        _PRISTINE.append((cls, state))


def restore_pristine(keep_forced):
    for cls, state in _PRISTINE:
        for a, v in state.items():
            if v is _MISSING:
                if a in vars(cls):
                    type.__delattr__(cls, a)
            elif vars(cls).get(a, _MISSING) is not v:
                type.__setattr__(cls, a, v)
    if keep_forced:
        type.__setattr__(I.KittyImage, "_forced_support", True)
        type.__setattr__(I.ITerm2Image, "_forced_support", True)


# ------------------------------------------------------------------------ generation

# node selector: index into a population ordered "main chain first" (deepest class, its parent, ...,
# then the other classes; instances of those classes in the same order), taken modulo its size
SMALL = st.sampled_from([0, 0, 0, 0, 1, 1, 1, 2, 2, 3, 4, 5, 7])
# parent selector: 0 = the most recently created class (chains), larger = older classes
PARENT = st.sampled_from([0, 0, 0, 1, 1, 2, 3, 4, 6, 8])
CASEV = st.integers(0, 3)
BAD_METHOD = ["", "", "", "foo", "line", "whole ", "anim", 0, 1, 2.5, True, False, ["whole"], {"bytes": "lines"}]
JPEG_OK = [-1, -5, 0, 1, 50, 75, 94, 95]
JPEG_BAD = [96, 100, 1000, "50", 50.0, None, [50]]
RFF_OK = [False, False, True]
RFF_BAD = [0, 1, None, "True", 1.0]
FS_OK = [True, True, False]
FS_BAD = [0, 1, None, "True", 1.0]
NATIVE_OK = [{"rel": -1}, {"rel": -1}, {"rel": 0}, {"rel": 1}, 1, 50, 2**20, 2**21, 2**31]
NATIVE_BAD = [0, -1, "1", 1.5, None]


def _w(*pairs):
    """weighted choice between strategies: pairs of (weight, strategy).  (An index is drawn from a
    list with repetitions, so the weights are honoured exactly.)"""
    idx = [i for i, (w, _) in enumerate(pairs) for _ in range(w)]
    strats = [s for _, s in pairs]
    return st.sampled_from(idx).flatmap(lambda i: strats[i])


def _method_tok():
    # "sel" indexes the style's methods ordered non-default first (whole, [anim,] lines)
    return st.fixed_dictionaries({"sel": st.sampled_from([0, 0, 0, 1, 1, 2]), "case": CASEV})


def _set(s, on, v, base=False):
    return st.fixed_dictionaries({"k": st.just("set"), "s": st.just(s), "on": st.just(on), "n": SMALL,
                                  "b": st.just(base), "v": v})


def _unset(s, on, base=False):
    return st.fixed_dictionaries({"k": st.just("unset"), "s": st.just(s), "on": st.just(on), "n": SMALL,
                                  "b": st.just(base)})


def _render_op():
    return st.fixed_dictionaries({
        "k": st.just("render"), "n": st.integers(0, 11),
        "m": _w((2, st.none()), (3, _method_tok())),
        "e": st.sampled_from(["renderer", "renderer", "format", "str", "iterator"]),
    })


# Every op table exists in two weightings: "early" (first half of a program: sets dominate) and
# "late" (second half: unsets dominate), so that set-on-ancestor ... unset-on-descendant is common.
# Both contain every op kind.

def _rm_ops(class_unset, late=False):
    S, U = (2, 5) if late else (5, 1)
    pairs = [
        (S, _set(RENDER_METHOD, "c", _method_tok())),
        (1, _set(RENDER_METHOD, "c", st.sampled_from(BAD_METHOD))),
        (1, _set(RENDER_METHOD, "c", st.one_of(_method_tok(), st.sampled_from(BAD_METHOD)), base=True)),
        (S - 1, _set(RENDER_METHOD, "i", _method_tok())),
        (U, _set(RENDER_METHOD, "i", st.none())),
        (1, _unset(RENDER_METHOD, "i")),
        (2, _set(RENDER_METHOD, "i", st.sampled_from(BAD_METHOD))),
        (4, _render_op()),
    ]
    if class_unset:
        pairs += [
            (U + 1, _set(RENDER_METHOD, "c", st.none())),
            (1, _unset(RENDER_METHOD, "c")),
            (1, _unset(RENDER_METHOD, "c", base=True)),
        ]
    return _w(*pairs)


def _fs_ops(late=False):
    return _w(
        (4, _set(FORCED_SUPPORT, "c", st.sampled_from(FS_OK))),
        (1, _set(FORCED_SUPPORT, "c", st.sampled_from(FS_OK), base=True)),
        (1, _set(FORCED_SUPPORT, "c", st.sampled_from(FS_BAD))),
        (1, _set(FORCED_SUPPORT, "i", st.sampled_from(FS_OK + FS_BAD))),
        (1, _unset(FORCED_SUPPORT, "i")),
        (4, st.fixed_dictionaries({"k": st.just("inst"), "n": SMALL})),
    )


def _encode():
    return st.fixed_dictionaries({"k": st.just("encode"), "n": SMALL,
                                  "m": st.sampled_from(["whole", "whole", "lines"])})


def _jq_ops(late=False):
    S, U = (2, 5) if late else (5, 1)
    return _w(
        (S, _set(JPEG_QUALITY, "c", st.sampled_from(JPEG_OK))),
        (U, _unset(JPEG_QUALITY, "c")),
        (1, _set(JPEG_QUALITY, "c", st.sampled_from(JPEG_BAD))),
        (S - 1, _set(JPEG_QUALITY, "i", st.sampled_from(JPEG_OK))),
        (U, _unset(JPEG_QUALITY, "i")),
        (1, _set(JPEG_QUALITY, "i", st.sampled_from(JPEG_BAD))),
        (4, _encode()),
    )


def _rff_ops(late=False):
    S, U = (2, 5) if late else (5, 1)
    return _w(
        (S, _set(READ_FROM_FILE, "c", st.sampled_from(RFF_OK))),
        (U, _unset(READ_FROM_FILE, "c")),
        (1, _set(READ_FROM_FILE, "c", st.sampled_from(RFF_BAD))),
        (S - 1, _set(READ_FROM_FILE, "i", st.sampled_from(RFF_OK))),
        (U, _unset(READ_FROM_FILE, "i")),
        (1, _set(READ_FROM_FILE, "i", st.sampled_from(RFF_BAD))),
        (4, _encode()),
    )


def _na_ops(late=False):
    return _w(
        (4, _set(NATIVE_ANIM, "c", st.sampled_from(NATIVE_OK))),
        (2, _unset(NATIVE_ANIM, "c")),
        (1, _set(NATIVE_ANIM, "c", st.sampled_from(NATIVE_BAD))),
        (1, _set(NATIVE_ANIM, "i", st.sampled_from(NATIVE_OK + NATIVE_BAD))),
        (1, _unset(NATIVE_ANIM, "i")),
        (4, st.fixed_dictionaries({"k": st.just("animwarn"), "n": SMALL})),
    )


_OPS = {
    FORCED_SUPPORT: _fs_ops, JPEG_QUALITY: _jq_ops, READ_FROM_FILE: _rff_ops, NATIVE_ANIM: _na_ops,
    RENDER_METHOD: lambda late=False: _rm_ops(False, late),
}


def _skeleton(draw):
    return {
        "ident": draw(st.integers(0, len(IDENTS) - 1)),
        "flip": draw(st.booleans()),
        "tree": [draw(PARENT) for _ in range(draw(st.integers(1, 7)))],
        "inst": [[draw(SMALL), draw(st.integers(0, 2))] for _ in range(draw(st.integers(0, 7)))],
    }


_ND_VALUE = {
    RENDER_METHOD: st.fixed_dictionaries({"sel": st.sampled_from([0, 0, 1]), "case": CASEV}),
    JPEG_QUALITY: st.sampled_from([0, 50, 95, -5]),
    READ_FROM_FILE: st.just(False),
}
_ANY_VALUE = {RENDER_METHOD: _method_tok(), JPEG_QUALITY: st.sampled_from(JPEG_OK),
              READ_FROM_FILE: st.sampled_from(RFF_OK)}


def _pattern(draw, s, class_unset):
    """The situation the property is about, as a few ops to be interleaved with random ones: an
    ancestor class gets a non-default value, a node below it gets its own value (observe), the node
    is unset again (observe).  Selectors are resolved modulo the populations, so this is a bias, not
    a guarantee."""
    mk = lambda k, on_, n, **kw: dict({"k": k, "s": s, "on": on_, "n": n, "b": False}, **kw)  # noqa: E731
    b = draw(st.sampled_from([0, 0, 1, 2]))
    if s == NATIVE_ANIM:
        obs = {"k": "animwarn", "n": draw(SMALL)}
        return [mk("set", "c", b, v=draw(st.sampled_from([{"rel": -1}, 1, 50]))), obs,
                mk("unset", "c", draw(SMALL)), dict(obs)]
    if s == FORCED_SUPPORT:
        a = b + draw(st.sampled_from([0, 1, 1, 2]))
        obs = {"k": "inst", "n": b}
        return [mk("set", "c", a, v=True), obs, mk("set", "c", draw(st.sampled_from([a, b])), v=False), dict(obs)]
    on = draw(st.sampled_from(["c", "i"])) if class_unset else "i"
    a = b + draw(st.sampled_from([1, 1, 2])) if on == "c" else draw(st.sampled_from([0, 1, 1, 2, 3]))
    if s == RENDER_METHOD:
        obs = {"k": "render", "n": b, "m": draw(st.one_of(st.none(), _method_tok())), "e": "renderer"}
    else:
        obs = {"k": "encode", "n": b if on == "i" else 0, "m": draw(st.sampled_from(["whole", "whole", "lines"]))}
    p1 = mk("set", "c", a, v=draw(_ND_VALUE[s]))
    p2 = mk("set", on, b, v=draw(_ANY_VALUE[s]))
    if s == RENDER_METHOD and draw(st.booleans()):
        p3 = mk("set", on, b, v=None)
    else:
        p3 = mk("unset", on, b)
    return [p1, p2, obs, p3, dict(obs)]


def _draw_ops(draw, early, late, pattern_settings, class_unset):
    n = draw(st.sampled_from([1, 2, 3, 4, 5, 6, 8, 10, 12, 14, 16]))
    ops = [draw(early if i < (n + 1) // 2 else late) for i in range(n)]
    if pattern_settings and n >= 3 and draw(st.integers(0, 2)) > 0:
        ps = draw(st.sampled_from(pattern_settings))
        pat = _pattern(draw, ps, class_unset or ps != RENDER_METHOD)
        if n < len(pat):
            pat = [q for q in pat if q["k"] in ("set", "unset")][:n]
        pos = sorted(draw(st.permutations(list(range(n))))[:len(pat)])
        for i, q in zip(pos, pat):
            ops[i] = q
    return ops


@st.composite
def rm_programs(draw):
    case = _skeleton(draw)
    case["only"] = "both"
    case["pristine_fs"] = False
    case["focus"] = [RENDER_METHOD]
    case["ops"] = _draw_ops(draw, _rm_ops(True), _rm_ops(True, late=True), [RENDER_METHOD], True)
    return case


@st.composite
def other_programs(draw):
    case = _skeleton(draw)
    focus = draw(st.lists(st.sampled_from([FORCED_SUPPORT, JPEG_QUALITY, READ_FROM_FILE, NATIVE_ANIM,
                                            RENDER_METHOD]), min_size=1, max_size=2, unique=True))
    focus.sort()
    case["focus"] = focus
    iterm_only = all(f in (JPEG_QUALITY, READ_FROM_FILE, NATIVE_ANIM) for f in focus)
    case["only"] = "iterm2" if iterm_only else draw(st.sampled_from(["both", "both", "iterm2"]))
    case["pristine_fs"] = True
    pats = list(focus)
    case["ops"] = _draw_ops(draw, _w(*[(1, _OPS[f]()) for f in focus]),
                            _w(*[(1, _OPS[f](late=True)) for f in focus]), pats, False)
    return case


# ------------------------------------------------------------------------ decoding render output

_K_RE = re.compile(r"\x1b_G([^;\x1b]*)(?:;([^\x1b]*))?\x1b\\")
_I_RE = re.compile(r"\x1b\]1337;File=([^:\x07\x1b]*):([^\x07\x1b]*)(?:\x07|\x1b\\)")


def _kv(text, sep):
    out = {}
    for part in text.split(sep):
        k, eq, v = part.partition("=")
        if eq:
            out[k] = v
    return out


def decode(out, family, lines=2):
    """-> (method, payloads).  Raises Violation when the framing is none of the documented ones."""
    if not isinstance(out, str):
        raise Violation(f"render returned {type(out).__name__}", {"kind": "framing"})
    if family == "kitty":
        tx = [_kv(m.group(1), ",") for m in _K_RE.finditer(out)]
        tx = [c for c in tx if "a" in c or "f" in c]
        rows = [c.get("r") for c in tx]
        if len(tx) == lines and all(r == "1" for r in rows):
            return "lines", []
        if len(tx) == 1 and rows == [str(lines)]:
            return "whole", []
        raise Violation(f"kitty render framing not understood: {len(tx)} transmissions with r={rows}",
                        {"kind": "framing"})
    imgs = [(_kv(m.group(1), ";"), m.group(2)) for m in _I_RE.finditer(out)]
    heights = [c.get("height") for c, _ in imgs]
    try:
        payloads = [base64.b64decode(p, validate=True) for _, p in imgs]
    except Exception as e:
        raise Violation(f"iterm2 payload is not base64: {e}", {"kind": "framing"})
    if len(imgs) == lines and all(h == "1" for h in heights):
        return "lines", payloads
    if len(imgs) == 1 and heights == [str(lines)]:
        return ("anim" if payloads[0][:6] in (b"GIF87a", b"GIF89a") else "whole"), payloads
    raise Violation(f"iterm2 render framing not understood: {len(imgs)} images with height={heights}",
                    {"kind": "framing"})


_QT = {}


def _ref_qtables(q):
    if q not in _QT:
        from PIL import Image

        b = io.BytesIO()
        Image.new("RGB", (8, 8), (1, 2, 3)).save(b, "jpeg", quality=q)
        b.seek(0)
        with Image.open(b) as im:
            _QT[q] = {k: list(v) for k, v in im.quantization.items()}
    return _QT[q]


def classify_payload(data):
    if data == FILES["png_bytes"]:
        return "file", None
    if data[:3] == b"\xff\xd8\xff":
        from PIL import Image

        with Image.open(io.BytesIO(data)) as im:
            return "jpeg", {k: list(v) for k, v in im.quantization.items()}
    if data[:8] == b"\x89PNG\r\n\x1a\n":
        return "png", None
    return "other:" + data[:8].hex(), None


# ------------------------------------------------------------------------ interpreter

class Ctx:
    pass


def _variant(name, v):
    mixed = "".join(ch.upper() if i % 2 else ch for i, ch in enumerate(name))
    return [name, name.upper(), name.title(), mixed][v % 4]


def build(case):
    """Creates the real classes / instances and the model, in lock-step."""
    c = Ctx()
    m = c.model = StyleModel()
    c.obj = []  # model node id -> real object
    c.name = []
    c.kind = []  # instances: "pil" | "file" | "gif" ; classes: None
    c.probe = {}  # class node -> probe instance node
    c.trace = []

    def add_class(obj, name, parent, family=None):
        n = m.add_class(parent, family)
        c.obj.append(obj)
        c.name.append(name)
        c.kind.append(None)
        return n

    c.B = add_class(I.BaseImage, "BaseImage", None, "")
    c.G = add_class(I.GraphicsImage, "GraphicsImage", c.B)
    c.BL = add_class(I.BlockImage, "BlockImage", c.B)
    c.K = add_class(I.KittyImage, "KittyImage", c.G, "kitty")
    c.T = add_class(I.ITerm2Image, "ITerm2Image", c.G, "iterm2")
    c.baseish = [c.B, c.G, c.BL]
    c.style = [c.K, c.T]
    _counter[0] += 1
    only = case.get("only", "both")
    shape = []
    bases = [c.T, c.K] if case.get("flip") else [c.K, c.T]
    for i, sel in enumerate(case["tree"]):
        cand = [n for n in bases + c.style[2:] if m.depth(n) - 2 < 4 and (only == "both" or m.family[n] == only)]
        p = cand[-1 - sel % len(cand)]
        name = f"C{len(c.style)}"
        obj = type(f"C20_{_counter[0]}_{name}", (c.obj[p],), {})
        n = add_class(obj, name, p)
        c.style.append(n)
        shape.append(c.style.index(p))
    c.shape = shape
    # populations are ordered "main chain first": the deepest (latest on ties) class, its ancestors
    # up to KittyImage / ITerm2Image, then the remaining classes in creation order
    deepest = max(c.style, key=lambda n: (m.depth(n), n))
    main = [n for n in m.chain(deepest) if n in c.style]
    c.order = main + [n for n in c.style if n not in main]
    c.tree_txt = ", ".join(f"{c.name[n]}({c.name[m.parent[n]]})" for n in c.style[2:])

    def add_instance(cls, kind):
        fam = m.family[cls]
        real = c.obj[cls]
        if kind == "pil" or fam == "kitty":
            kind = "pil"
            res = _call(lambda: real(FILES["pil"], width=2, height=2))
        elif kind == "file":
            res = _call(lambda: real.from_file(FILES["png"], width=2, height=2))
        else:
            res = _call(lambda: real.from_file(FILES["gif"], width=2, height=2))
        if res[0] == "raise":
            # forced support is enabled on KittyImage / ITerm2Image (by vf.env) at this point and
            # nothing below them has a value yet, so every style class must be instantiable
            e = res[1]
            raise Violation(f"{c.name[cls]}(...) raised {type(e).__name__}: {e} although forced support is "
                            f"enabled on {c.name[c.K if fam == 'kitty' else c.T]} and unset below it",
                            {"setting": FORCED_SUPPORT, "kind": "instantiation"})
        inst = res[1]
        n = m.add_instance(cls)
        c.obj.append(inst)
        c.kind.append(kind)
        c.name.append(None)
        return n

    insts = []
    per = {}
    for csel, ksel in case["inst"]:
        cand = [n for n in c.order if only == "both" or m.family[n] == only]
        cls = cand[csel % len(cand)]
        if per.get(cls, 0) >= 3:
            continue
        per[cls] = per.get(cls, 0) + 1
        n = add_instance(cls, ["pil", "file", "gif"][ksel % 3])
        c.name[n] = f"{c.name[cls].lower()}_i{per[cls]}"
        insts.append(n)
    c.insts = sorted(insts, key=lambda n: (c.order.index(m.parent[n]), n))
    for cls in c.style:
        n = add_instance(cls, "gif")
        c.name[n] = f"{c.name[cls].lower()}_probe"
        c.probe[cls] = n
    c.supported = {"kitty": bool(I.KittyImage._supported), "iterm2": bool(I.ITerm2Image._supported), "": True}
    if case.get("pristine_fs"):
        type.__delattr__(I.KittyImage, "_forced_support")
        type.__delattr__(I.ITerm2Image, "_forced_support")
    else:
        m.own[FORCED_SUPPORT][c.K] = True
        m.own[FORCED_SUPPORT][c.T] = True
    return c


def _resolve_value(tok, c, family):
    if isinstance(tok, dict):
        if "sel" in tok:
            names = M.METHODS[family] or ("lines", "whole", "anim")
            names = names[1:] + names[:1]  # non-default first
            return _variant(names[tok["sel"] % len(names)], tok["case"])
        if "bytes" in tok:
            return tok["bytes"].encode()
        if "rel" in tok:
            return len(FILES["gif_bytes"]) + tok["rel"]
    return tok


def _call(fn):
    try:
        return ("ok", fn())
    except Violation:
        raise
    except Exception as e:  # classified by the caller
        return ("raise", e)


def _write(obj, setting, value):
    if setting == RENDER_METHOD:
        if value is UNSET:
            return _call(lambda: obj.set_render_method())
        return _call(lambda: obj.set_render_method(value))
    if value is UNSET:
        return _call(lambda: delattr(obj, setting))
    return _call(lambda: setattr(obj, setting, value))


def _render(c, node, method, entry):
    inst = c.obj[node]
    if entry == "format":
        letter = {"lines": "L", "whole": "W", "anim": "A"}[method.lower()] if method else ""
        fn = lambda: format(inst, "1.1#" + ("+" + letter if letter else ""))  # noqa: E731
    elif entry == "iterator":
        # a per-iteration override must also hold for a cached frame that is rendered again after a size change
        letter = {"lines": "L", "whole": "W"}[method.lower()]

        def fn():
            from term_image.image import ImageIterator, Size

            old = inst.size
            it = ImageIterator(inst, 2, "1.1#+" + letter, True)
            try:
                first = [next(it) for _ in range(inst.n_frames)]
                w, h = inst.rendered_size
                inst.set_size(w + 1, h)
                again = next(it)
            finally:
                it.close()
                if isinstance(old, Size):
                    inst.size = old
                else:
                    inst.set_size(*old)
                inst.seek(0)
            m0 = decode(first[0], c.model.family[node])[0]
            m1 = decode(again, c.model.family[node])[0]
            if m0 != m1:
                raise Violation(f"ImageIterator of {c.name[node]} with '+{letter}': first pass used {m0!r}, the frame rendered again "
                                f"after a size change used {m1!r}\n{_prog(c)}", {"setting": RENDER_METHOD, "kind": "override_iterator"})
            return again
    elif entry == "str":
        fn = lambda: str(inst)  # noqa: E731
    else:
        fn = lambda: inst._renderer(inst._render_image, None, **({"method": method} if method else {}))  # noqa: E731
    res = _call(fn)
    if res[0] == "raise":
        e = res[1]
        raise Violation(f"render of {c.name[node]} (method={method!r}, via {entry}) raised "
                        f"{type(e).__name__}: {e}\n{_prog(c)}", {"kind": "render_exception"})
    return decode(res[1], c.model.family[node])


def _observable(c, node, method):
    method = method.lower()
    if method == "anim" and c.kind[node] != "gif":
        return "whole"  # documented: non-animated image -> WHOLE is used instead
    return method


def _prog(c):
    return ("tree: " + (c.tree_txt or "-") + "\nprogram:\n  " + "\n  ".join(c.trace))


def _sig(c, setting, node, kind):
    sig = {"setting": setting, "kind": kind}
    if setting in M.INHERITABLE and kind == "effective_mismatch":
        sig["class_unset_in_chain"] = c.model.class_unset_in_chain(setting, node)
    return sig


def snapshot(c, render, getters=True):
    """Reads every setting on every node and compares with the model."""
    m = c.model
    for n, obj in enumerate(c.obj if getters else ()):
        for s in (FORCED_SUPPORT, JPEG_QUALITY, READ_FROM_FILE, NATIVE_ANIM):
            if not m.applicable(s, n):
                continue
            res = _call(lambda: getattr(obj, s))
            if res[0] == "raise":
                raise Violation(f"reading {c.name[n]}.{s} raised {type(res[1]).__name__}: {res[1]}\n{_prog(c)}",
                                _sig(c, s, n, "read_exception"))
            got, exp = res[1], m.effective(s, n)
            if type(got) is not type(exp) or got != exp:
                raise Violation(
                    f"{c.name[n]}.{s} reads {got!r}, documented resolution gives {exp!r} "
                    f"(own value: {m.own.get(s, {}).get(n, 'unset')!r})\n{_prog(c)}",
                    _sig(c, s, n, "effective_mismatch"))
    if render:
        for n in list(c.probe.values()) + c.insts:
            got, _ = _render(c, n, None, "renderer")
            exp = _observable(c, n, m.effective(RENDER_METHOD, n))
            if got != exp:
                who = (f"class {c.name[m.parent[n]]} (rendered through an instance without own method)"
                       if n in c.probe.values() else f"instance {c.name[n]}")
                raise Violation(
                    f"{who} renders with method {got!r}, documented resolution gives {exp!r}\n{_prog(c)}",
                    _sig(c, RENDER_METHOD, n, "effective_mismatch"))


def _pick(pop, sel):
    return pop[sel % len(pop)] if pop else None


def run_program(case, rec):
    env.reset()
    name, version = IDENTS[case["ident"] % len(IDENTS)]
    env.apply(cols=80, rows=30, cell=[4, 8], name=name, version=version)
    restore_pristine(keep_forced=True)
    c = None
    try:
        with warnings.catch_warnings():
            warnings.simplefilter("ignore")
            c = build(case)
            _run(c, case, rec)
    finally:
        if c is not None:
            rec.label(*sorted(getattr(c, "flags", ())))
            for n, obj in enumerate(c.obj):
                if c.model.is_inst[n]:
                    try:
                        obj.close()
                    except Exception:
                        pass
        restore_pristine(keep_forced=False)
        if _counter[0] % 50 == 0:
            gc.collect()


def _run(c, case, rec):
    m = c.model
    focus = case["focus"]
    render_snap = RENDER_METHOD in focus
    getters = focus != [RENDER_METHOD]  # the render_method clause observes by rendering only
    fam_style = {f: [n for n in c.order if m.family[n] == f] for f in ("kitty", "iterm2")}
    fam_inst = {f: [n for n in c.insts if m.family[n] == f] for f in ("kitty", "iterm2")}
    probes = list(c.probe.values())
    kinds = []
    settings_nontriv = set()
    flags = c.flags = set()  # recorded as labels by run_program, also when the case fails

    rec.label(f"ident:{IDENTS[case['ident'] % len(IDENTS)][0] or 'unknown'}")
    if fam_style["kitty"][1:]:
        rec.label("tree:kitty_subclasses")
    if fam_style["iterm2"][1:]:
        rec.label("tree:iterm2_subclasses")
    if max(m.depth(n) - 2 for n in c.style) >= 3:
        rec.label("tree:depth>=3")
    if c.insts:
        rec.label("has_instances")
    rec.label(*["focus:" + f for f in focus])

    snapshot(c, render_snap, getters)  # initial state: documented defaults everywhere

    for op in case["ops"]:
        k = op["k"]
        if k in ("set", "unset"):
            s = op["s"]
            if op["on"] == "i":
                pop = fam_inst["iterm2"] if s in (JPEG_QUALITY, READ_FROM_FILE, NATIVE_ANIM) else c.insts
            elif op.get("b"):
                pop = c.baseish
            else:
                pop = fam_style["iterm2"] if s in (JPEG_QUALITY, READ_FROM_FILE, NATIVE_ANIM) else c.order
            node = _pick(pop, op["n"])
            if node is None or not m.applicable(s, node):
                flags.add("skipped_op")
                continue
            value = UNSET if k == "unset" else _resolve_value(op["v"], c, m.family[node])
            exp = m.expect(s, node, value)
            if exp[0] == "undefined":
                flags.add("skipped_op")
                continue
            if s == RENDER_METHOD:
                txt = f"{c.name[node]}.set_render_method({'' if value is UNSET else repr(value)})"
            elif value is UNSET:
                txt = f"del {c.name[node]}.{s}"
            else:
                txt = f"{c.name[node]}.{s} = {value!r}"
            c.trace.append(txt)
            unsetting = value is UNSET or (s == RENDER_METHOD and value is None)
            okind = ("i" if m.is_inst[node] else "c") + ("unset" if unsetting else "set") + ":" + s
            if exp[0] == "ok" and unsetting and m.unset_under_nondefault(s, node):
                settings_nontriv.add(s)
                flags.add("unset_under_nondefault")
                if not m.is_inst[node]:
                    flags.add("class_unset_under_nondefault")
            res = _write(c.obj[node], s, value)
            if exp[0] == "ok":
                if res[0] == "raise":
                    e = res[1]
                    raise Violation(f"valid operation `{txt}` raised {type(e).__name__}: {e}\n{_prog(c)}",
                                    _sig(c, s, node, "valid_write_rejected"))
                m.apply(s, node, value)
                c.trace[-1] += "   # ok"
            else:
                okind += "!"
                flags.add("inst_write_class_only" if exp[1] == "AttributeError" else "invalid_write")
                if res[0] == "ok":
                    raise Violation(f"`{txt}` must be rejected with {exp[1]} but was accepted\n{_prog(c)}",
                                    _sig(c, s, node, "invalid_write_accepted"))
                e = res[1]
                want = {"TypeError": TypeError, "ValueError": ValueError, "AttributeError": AttributeError}[exp[1]]
                if not isinstance(e, want):
                    raise Violation(f"`{txt}` must be rejected with {exp[1]} but raised "
                                    f"{type(e).__name__}: {e}\n{_prog(c)}", _sig(c, s, node, "wrong_exception"))
                c.trace[-1] += f"   # rejected: {type(e).__name__}"
            kinds.append(okind)
            rec.count("op:" + okind)
        elif k == "render":
            node = _pick(c.insts + probes, op["n"])
            fam = m.family[node]
            over = _resolve_value(op["m"], c, fam) if op["m"] else None
            entry = op["e"]
            if entry == "str":
                over = None
            if entry == "iterator" and not (over and over.lower() in ("lines", "whole") and c.kind[node] == "gif"):
                entry = "format"  # the iterator entry needs an animated source and a LINES/WHOLE override
            c.trace.append(f"render {c.name[node]} via {entry}" + (f" with method={over!r}" if over else ""))
            got, _ = _render(c, node, over, entry)
            exp = _observable(c, node, over if over else m.effective(RENDER_METHOD, node))
            if got != exp:
                raise Violation(
                    f"render of {c.name[node]} via {entry} used method {got!r}; expected {exp!r} "
                    f"(override={over!r}, effective={m.effective(RENDER_METHOD, node)!r})\n{_prog(c)}",
                    {"setting": RENDER_METHOD, "kind": "override" if over else "render_effective",
                     "class_unset_in_chain": m.class_unset_in_chain(RENDER_METHOD, node)})
            flags.add("render_override" if over else "render_plain")
            if over and over.lower() != m.effective_norm(RENDER_METHOD, node):
                flags.add("override_differs")
            kinds.append("render+" if over else "render")
        elif k == "inst":
            node = _pick(c.order, op["n"])
            fam = m.family[node]
            should = c.supported[fam] or m.effective(FORCED_SUPPORT, node)
            c.trace.append(f"{c.name[node]}(pil_image)")
            res = _call(lambda: c.obj[node](FILES["pil"]))
            if res[0] == "ok":
                res[1].close()
                if not should:
                    raise Violation(f"{c.name[node]} instantiated although the style is unsupported and "
                                    f"forced support is disabled for it\n{_prog(c)}",
                                    _sig(c, FORCED_SUPPORT, node, "instantiation"))
                flags.add("instantiate_ok" if not c.supported[fam] else "instantiate_supported")
            else:
                e = res[1]
                if should or not isinstance(e, StyleError):
                    raise Violation(f"{c.name[node]}(...) raised {type(e).__name__}: {e} (supported="
                                    f"{c.supported[fam]}, effective forced_support="
                                    f"{m.effective(FORCED_SUPPORT, node)})\n{_prog(c)}",
                                    _sig(c, FORCED_SUPPORT, node, "instantiation"))
                flags.add("instantiate_refused")
            kinds.append("inst")
        elif k == "encode":
            pop = [n for n in fam_inst["iterm2"] if c.kind[n] != "gif"]
            node = _pick(pop, op["n"])
            if node is None:
                flags.add("skipped_op")
                continue
            method = op["m"]
            c.trace.append(f"render {c.name[node]} ({c.kind[node]} source) with method={method!r}; inspect payload")
            got, payloads = _render(c, node, method, "renderer")
            if got != method:
                raise Violation(f"override {method!r} ignored (used {got!r})\n{_prog(c)}",
                                {"setting": RENDER_METHOD, "kind": "override"})
            jq = m.effective(JPEG_QUALITY, node)
            rff = m.effective(READ_FROM_FILE, node)
            if method == "whole" and c.kind[node] == "file" and rff:
                exp = "file"
            else:
                exp = "jpeg" if jq >= 0 else "png"
            for data in payloads:
                fmt, qt = classify_payload(data)
                if fmt != exp:
                    s = READ_FROM_FILE if "file" in (fmt, exp) else JPEG_QUALITY
                    raise Violation(
                        f"payload of {c.name[node]} is {fmt!r}, expected {exp!r} (effective jpeg_quality={jq}, "
                        f"read_from_file={rff}, source={c.kind[node]})\n{_prog(c)}", _sig(c, s, node, "payload"))
                if fmt == "jpeg" and qt != _ref_qtables(jq):
                    raise Violation(f"JPEG payload of {c.name[node]} was not encoded with the effective quality "
                                    f"{jq}\n{_prog(c)}", _sig(c, JPEG_QUALITY, node, "payload"))
            flags.add("encode:" + exp)
            kinds.append("encode")
        elif k == "animwarn":
            pop = [n for n in fam_inst["iterm2"] if c.kind[n] == "gif"] + [c.probe[n] for n in fam_style["iterm2"]]
            node = _pick(pop, op["n"])
            inst = c.obj[node]
            c.trace.append(f"render {c.name[node]} with method='anim'; watch for the size warning")
            with warnings.catch_warnings(record=True) as w:
                warnings.simplefilter("always")
                res = _call(lambda: inst._renderer(inst._render_image, None, method="anim"))
            if res[0] == "raise":
                raise Violation(f"native-animation render raised {type(res[1]).__name__}: {res[1]}\n{_prog(c)}",
                                {"kind": "render_exception"})
            got, _ = decode(res[1], "iterm2")
            if got != "anim":
                raise Violation(f"override 'anim' on an animated image used {got!r}\n{_prog(c)}",
                                {"setting": RENDER_METHOD, "kind": "override"})
            warned = any("native animation" in str(x.message) for x in w)
            should = len(FILES["gif_bytes"]) > m.native
            if warned != should:
                raise Violation(
                    f"size warning {'issued' if warned else 'not issued'} for {len(FILES['gif_bytes'])} bytes "
                    f"with native_anim_max_bytes={m.native} (as seen by {c.name[node]})\n{_prog(c)}",
                    _sig(c, NATIVE_ANIM, node, "warning"))
            flags.add("animwarn:" + ("yes" if should else "no"))
            kinds.append("animwarn")
        else:
            raise ValueError(f"unknown op {op!r}")

        snapshot(c, render_snap, getters)
        div = m.siblings_diverge()
        if div:
            flags.add("siblings_diverge")
            settings_nontriv |= div

    # finally: freshly created instances see the class-wide values too
    for cls in c.style:
        fam = m.family[cls]
        if not (c.supported[fam] or m.effective(FORCED_SUPPORT, cls)):
            continue
        res = _call(lambda: c.obj[cls](FILES["pil"], width=2, height=2))
        if res[0] == "raise":
            e = res[1]
            raise Violation(f"{c.name[cls]}(...) raised {type(e).__name__}: {e}\n{_prog(c)}",
                            _sig(c, FORCED_SUPPORT, cls, "instantiation"))
        inst = res[1]
        m.add_instance(cls)
        c.obj.append(inst)
        c.kind.append("pil")
        c.name.append(f"fresh {c.name[cls]}(...)")
    c.trace.append("(fresh instance of every class)")
    c.insts = [n for n in range(len(c.obj)) if m.is_inst[n] and n not in probes]
    snapshot(c, render_snap, getters)

    if settings_nontriv:
        rec.nontriv([sorted(settings_nontriv), c.shape, kinds])


CLAUSES = [
    Clause(
        "render_method",
        run_program,
        rm_programs,
        budget={"quick": 800, "thorough": 24000},
        floors={"unset_under_nondefault": 0.12, "class_unset_under_nondefault": 0.05, "siblings_diverge": 0.25,
                "render_override": 0.12, "override_differs": 0.08, "invalid_write": 0.15, "tree:depth>=3": 0.15,
                "tree:kitty_subclasses": 0.25, "tree:iterm2_subclasses": 0.3, "has_instances": 0.4},
    ),
    Clause(
        "other_settings",
        run_program,
        other_programs,
        budget={"quick": 1600, "thorough": 36000},
        floors={"unset_under_nondefault": 0.07, "siblings_diverge": 0.2, "invalid_write": 0.1,
                "inst_write_class_only": 0.05, "instantiate_ok": 0.015, "instantiate_refused": 0.02,
                "encode:file": 0.012, "encode:jpeg": 0.008, "encode:png": 0.04, "animwarn:yes": 0.02,
                "animwarn:no": 0.04, "render_override": 0.02, "focus:forced_support": 0.1,
                "focus:jpeg_quality": 0.1, "focus:read_from_file": 0.1, "focus:native_anim_max_bytes": 0.1,
                "focus:render_method": 0.1},
    ),
]
