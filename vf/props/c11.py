"""C11 — image iteration matches frame-by-frame rendering and leaks nothing.

A case is a *history*: a source (file path / caller's PIL image / URL on a loopback HTTP server,
incl. 404, non-image bodies and a failing constructor), a render style, a terminal configuration,
an initial size setting and up to 12 operations (str, format, draw, ImageIterator()/iter(), next xk,
iterator seek/close/abandon, image seek/close/`with`, size changes, terminal resizes), optionally
with ONE injected PIL call fault.  The history is interpreted on the real library in lock-step
with a small documentation-derived model (`ItModel`); yielded frames are compared with
`format(twin, spec')` of an independent second image object of the same source; after every
operation the resource invariants (open image files under the tracked directories, the library's
private temp dir, the caller's PIL image, the size setting, tell()) are re-verified.
"""

from __future__ import annotations

import gc
import io
import os
import re
import sys
import threading
import warnings
from collections import Counter

from hypothesis import strategies as st

from .. import gen
from ..core import Clause, Violation

META = {
    "level": "exploration",
    "rule": (
        "Hypothesis-generated histories (<= 12 ops) over sources {file path, caller's PIL image, URL served by "
        "a per-worker loopback http.server; plus 404 / non-image body / failing constructor}, animated GIF/WEBP "
        "(2-5 frames, <= 8x8 px, opaque or with transparent/semi-transparent pixels) and still images, styles "
        "block/kitty/iterm2 with generated format specs (padding, alignment, alpha, kitty L/W/z/m/c, iterm2 "
        "L/W/A/m/c), repeat in {1,2,3,-1}, cached in {False,True,1,n,n+1,100}; ops: str, format, draw (stdout "
        "captured, sleep patched), ImageIterator()/iter() incl. rejected arguments, next xk, iterator seek (valid, "
        "out of range, before start, after close), early close, abandonment (del + gc), image.seek, image.close, "
        "`with image:`, set_size / dynamic size, terminal resize; optionally one fault: the k-th call (k chosen from "
        "a fault-free dry run of the same history, which is itself fully checked) of PIL convert / resize / save / "
        "tobytes / frombytes / alpha_composite / getdata during one op raises RuntimeError or OSError before or after "
        "the real call. Oracle: model of pass/position/loop_no/tell from the ImageIterator docs; frames == "
        "format(twin.seek(k), spec with absolute padding and A->W); resource invariants (image-file descriptors, "
        "library temp dir, caller's PIL image, size setting) after every op and after a final abandon-everything "
        "epilogue. Non-trivial = history with an early close / abandonment, a fired fault or a URL source; "
        "distinct by (source kind, style, op-kind sequence, fault site)."
    ),
    "assumptions": [
        "open image files are observed as /proc/self/fd entries that resolve into the harness image directory or "
        "the library's private temp dir (sockets of the loopback server / requests are not counted); descriptors "
        "held by the caller's own PIL image (its .fp/._fp) are subtracted",
        "file-descriptor counts are taken after the harness has released exception objects (CPython reference "
        "counting closes a file whose last reference is dropped); in addition no ResourceWarning('unclosed file') "
        "for an image file may be emitted by construction, by a successfully completed str/format/still draw, by "
        "next(), or by close()/collection of a started iterator. Tolerated (counted as gc_closed_tolerated, not "
        "judged): a never-started ImageIterator (incl. the throw-away generator built by every animated draw()) "
        "and a render that failed half-way leave their file to the garbage collector",
        "terminal-relative padding in an iterator's format specifier is resolved against the terminal size at the "
        "time the iterator is constructed",
        "iterm2 '+A' inside an iterator: the frame must equal the '+W' frame, or have the same control data and a "
        "payload equal (within 3 levels) to the BOX-rescaled '+W' payload (the implementation does not apply WHOLE's "
        "minimal-size optimization on this path)",
        "after a failed next() the image's seek position is unspecified (re-read, must be a valid frame number)",
        "terminal resizes change columns/rows only (cell size, identity and colours are fixed per history)",
        "APNG sources are excluded: Pillow 11.1 itself raises 'APNG contains frame sequence errors' when an APNG is "
        "rewound from a middle frame and sought forward again (pure-PIL reproduction), which any backward seek hits",
        "after image.close() an iterator of that image may keep yielding (correct) frames, stop, or raise "
        "TermImageError; every violation observed after the image was closed while one of its iterators was still "
        "open carries signature ctx=image_closed_before_iterator",
    ],
}

I = C = env = None
Image = PILImage = None
SERVER = None


# ====================================================================================== set-up

class _Server:
    """Loopback HTTP server (one per worker process) serving static in-memory bodies."""

    def __init__(self):
        import http.server

        bodies = self.bodies = {}

        class H(http.server.BaseHTTPRequestHandler):
            def do_GET(self):
                body = bodies.get(self.path.lstrip("/"))
                if body is None:
                    self.send_response(404)
                    self.send_header("Content-Length", "0")
                    self.end_headers()
                    return
                self.send_response(200)
                self.send_header("Content-Type", "application/octet-stream")
                self.send_header("Content-Length", str(len(body)))
                self.end_headers()
                self.wfile.write(body)

            def log_message(self, *a):
                pass

        self.httpd = http.server.HTTPServer(("127.0.0.1", 0), H)
        self.port = self.httpd.server_address[1]
        t = threading.Thread(target=self.httpd.serve_forever, kwargs={"poll_interval": 0.05}, daemon=True)
        t.start()

    def url(self, name, body=None):
        if body is not None:
            self.bodies[name] = body
        return f"http://127.0.0.1:{self.port}/{name}"


def setup():
    global I, C, env, Image, PILImage, SERVER
    from .. import env as _env

    os.environ["NO_PROXY"] = os.environ["no_proxy"] = "127.0.0.1,localhost"
    for k in ("HTTP_PROXY", "http_proxy", "ALL_PROXY", "all_proxy"):
        os.environ.pop(k, None)
    _env.install()
    import PIL.Image as _PI
    import term_image.image as _I
    import term_image.image.common as _C

    I, C, env, PILImage = _I, _C, _env, _PI
    Image = _PI.Image
    SERVER = _Server()
    # the histories call gc.collect() several times each; everything imported so far is long-lived
    gc.collect()
    gc.freeze()


# ====================================================================================== generation

STYLES = ["block", "kitty", "iterm2"]
SITES = {  # PIL entry points each style's render path can reach
    "block": ["convert", "resize", "getdata", "getdata", "alpha_composite"],
    "kitty": ["convert", "resize", "tobytes", "tobytes", "alpha_composite"],
    "iterm2": ["convert", "resize", "save", "save", "tobytes", "frombytes", "alpha_composite"],
}
IDENTS = [["", ""], ["kitty", "0.26.5"], ["wezterm", "20230712-072601-f4abf8fd"], ["iterm2", "3.4.19"],
          ["konsole", "22.04.0"]]
SIZE_ENUM = ["FIT", "AUTO", "ORIGINAL", "FIT_TO_WIDTH"]


@st.composite
def size_setting(draw):
    kind = draw(st.sampled_from(["fixed", "fixed", "fixed", "dyn", "dyn", "width", "enumfixed", "match", "match"]))
    if kind == "match":  # render size == source size in pixels where the cell geometry allows: no resize step
        return ["match"]
    if kind == "fixed":
        return ["fixed", draw(st.integers(1, 8)), draw(st.integers(1, 4))]
    if kind == "width":
        return ["width", draw(st.integers(1, 8))]
    return [kind, draw(st.sampled_from(SIZE_ENUM))]


@st.composite
def spec_fields(draw, style):
    f = {
        "h": draw(st.sampled_from([None, None, "<", "|", ">"])),
        "w": draw(st.sampled_from([None, 1, 1, 6, 12])),
        "v": draw(st.sampled_from([None, None, "^", "-", "_"])),
        "ht": draw(st.sampled_from([None, 1, 1, 4, 7])),
        "alpha": draw(st.sampled_from(["", "", "#", "##", "#.5", "#.0", "#ffffff", "#7f10c0"])),
        "sty": "",
    }
    if style == "kitty":
        f["sty"] = (draw(st.sampled_from(["", "", "L", "W", "W"])) + draw(st.sampled_from(["", "", "z0", "z-5", "z7"]))
                    + draw(st.sampled_from(["", "", "m0", "m1"])) + draw(st.sampled_from(["", "", "c0", "c9"])))
    elif style == "iterm2":
        f["sty"] = (draw(st.sampled_from(["", "L", "W", "W", "A", "A"])) + draw(st.sampled_from(["", "", "m0", "m1"]))
                    + draw(st.sampled_from(["", "", "c0", "c9"])))
    return f


def spec_text(f, cols=None, rows=None, a_to_w=False):
    """Format specifier text of the fields; with cols/rows given, terminal-relative padding is made absolute."""
    w, ht = f["w"], f["ht"]
    if cols is not None:
        w = w or max(cols, 1)
        ht = ht or max(rows - 2, 1)
    s = (f["h"] or "") + (str(w) if w else "")
    if f["v"] or ht:
        s += "." + (f["v"] or "") + (str(ht) if ht else "")
    s += f["alpha"]
    sty = f["sty"].replace("A", "W") if a_to_w else f["sty"]
    if sty:
        s += "+" + sty
    return s


@st.composite
def iter_params(draw, style, n):
    ctor = draw(st.sampled_from(["II", "II", "II", "II", "iter", "bad"]))
    p = {"ctor": ctor}
    if ctor == "iter":
        return p
    p["repeat"] = draw(st.sampled_from([1, 2, 2, 3, -1, -1]))
    p["cached"] = draw(st.sampled_from([False, True, True, 1, n, n + 1, 100]))
    p["spec"] = draw(spec_fields(style))
    if ctor == "bad":
        p["bad"] = draw(st.sampled_from(["repeat0", "cached0", "cached-1", "spec_value", "spec_style"]))
    return p


@st.composite
def an_op(draw, style, n, animated):
    if animated:
        kind = draw(st.sampled_from(
            ["iter"] * 3 + ["next"] * 8 + ["seek"] * 3 + ["close"] * 2 + ["drop"] * 2 + ["str", "format", "format"]
            + ["draw"] * 2 + ["size"] * 4 + ["resize", "resize", "img_seek", "img_close", "with"]))
    else:
        kind = draw(st.sampled_from(["str", "format", "format", "format", "draw", "draw", "size", "resize", "iter",
                                     "img_seek", "img_close", "with"]))
    o = {"op": kind}
    if kind == "iter":
        o["p"] = draw(iter_params(style, n))
    elif kind == "next":
        o["it"] = draw(st.integers(0, 3))
        o["k"] = draw(st.integers(1, n + 2))
    elif kind == "seek":
        o["it"] = draw(st.integers(0, 3))
        o["pos"] = draw(st.sampled_from([-1, n] + list(range(n)) * 3))
        o["pre"] = draw(st.sampled_from([0, 1, 1, 2]))  # next() calls made first
    elif kind in ("close", "drop"):
        o["it"] = draw(st.integers(0, 3))
    elif kind == "format":
        o["spec"] = draw(spec_fields(style))
    elif kind == "draw":
        o["animate"] = draw(st.sampled_from([True, True, True, False]))
        o["repeat"] = draw(st.sampled_from([1, 2]))
        o["cached"] = draw(st.sampled_from([False, True, 1, 100]))
        o["alpha"] = draw(st.sampled_from(["default", "default", None, 0.5, "#", "#ffffff"]))
        o["check_size"] = draw(st.booleans())
        sa = {}
        if style == "kitty":
            sa = draw(st.fixed_dictionaries({}, optional={"method": st.sampled_from(["lines", "whole"]),
                                                          "mix": st.booleans(), "compress": st.sampled_from([0, 9])}))
        elif style == "iterm2":
            sa = draw(st.fixed_dictionaries({}, optional={"method": st.sampled_from(["lines", "whole", "anim"]),
                                                          "mix": st.booleans(), "compress": st.sampled_from([0, 9])}))
        o["style"] = sa
    elif kind == "size":
        o["size"] = draw(size_setting())
    elif kind == "resize":
        o["cols"] = draw(st.integers(4, 24))
        o["rows"] = draw(st.integers(3, 12))
    elif kind == "img_seek":
        o["k"] = draw(st.integers(-1, n))
    elif kind == "with":
        o["inner"] = draw(st.sampled_from(["none", "str", "next"]))
    return o


@st.composite
def cases(draw):
    style = draw(st.sampled_from(STYLES))
    animated = draw(st.integers(0, 5)) != 0
    if animated:
        # APNG is left out: Pillow 11.1 itself fails ("APNG contains frame sequence errors") when an APNG is
        # rewound from a middle frame and then sought forward again (pure-PIL reproduction: seek 1, load, seek 0,
        # load, seek 1), which every backward iterator seek / PIL source positioned mid-way runs into.
        img = draw(gen.anim_image(max_frames=5, max_w=8, max_h=8, fmts=("GIF", "WEBP")))
        n = img["n"]
        if draw(st.integers(0, 2)) == 0:
            img["alpha"] = True
            img["h"] += img["h"] % 2  # even height: a size with render size == source size exists ("match")
        kind = draw(st.sampled_from(["file"] * 5 + ["pil"] * 3 + ["url"] * 5 + ["url404", "urlbad", "urlarg"]))
    else:
        img = draw(gen.still_image(max_w=8, max_h=8, modes=["L", "RGB", "RGB", "RGBA", "P", "LA"]))
        n = 1
        kind = draw(st.sampled_from(["file", "file", "pil_open", "pil_mem", "url", "url404", "urlbad"]))
    src = {"kind": kind, "image": img}
    if kind == "pil" and animated:
        src["start"] = draw(st.integers(0, n - 1))
    if kind == "urlbad":
        src["body"] = draw(st.sampled_from(["text", "empty", "cut"]))
    ident = draw(st.sampled_from(IDENTS))
    cfg = {"cols": draw(st.integers(4, 24)), "rows": draw(st.integers(3, 12)),
           "cell": draw(st.sampled_from([None, [1, 2], [2, 4], [3, 5]])), "name": ident[0], "version": ident[1],
           "bg": draw(st.sampled_from([None, [16, 32, 48]]))}
    size0 = ["match"] if draw(st.integers(0, 3)) == 0 else draw(size_setting())
    case = {"style": style, "source": src, "cfg": cfg, "size0": size0}
    if style == "iterm2":
        case["rff"] = draw(st.sampled_from(["unset", "unset", True, False]))
    if kind in ("url404", "urlbad", "urlarg"):
        case["ops"] = []
        case["it0"] = {"ctor": "iter"}
        case["fault"] = None
        return case
    case["it0"] = draw(iter_params(style, n).filter(lambda p: p["ctor"] != "bad"))
    case["ops"] = draw(st.lists(an_op(style, n, animated), min_size=1, max_size=12))
    if draw(st.booleans()):
        case["fault"] = {"site": draw(st.sampled_from(SITES[style])), "exc": draw(st.sampled_from(["RuntimeError", "OSError"])),
                         "op": draw(st.integers(0, 11)), "k": draw(st.integers(0, 40)),
                         "when": draw(st.sampled_from(["before", "before", "after"]))}
    else:
        case["fault"] = None
    return case


# ====================================================================================== fault injector

class _Runaway(Exception):
    pass


class Injector:
    """Wraps one PIL entry point.  Counts calls while armed; raises at call index `fire_at`."""

    def __init__(self, site):
        self.site = site
        self.armed = False
        self.calls = 0
        self.fire_at = None
        self.exc = None
        self.after = False
        self.fired = False
        if site == "frombytes":
            self.owner, self.attr = PILImage, "frombytes"
        else:
            self.owner, self.attr = Image, site
        self.orig = self.owner.__dict__[self.attr]
        orig, me = self.orig, self

        def wrapper(*a, **kw):
            if me.armed:
                idx = me.calls
                me.calls += 1
                if me.fire_at is not None and idx == me.fire_at and not me.fired:
                    me.fired = True
                    if me.after:
                        me.armed = False  # nested calls of the real operation are not counted twice
                        try:
                            orig(*a, **kw)
                        finally:
                            me.armed = True
                    raise me.exc
            return orig(*a, **kw)

        wrapper.__name__ = getattr(orig, "__name__", site)
        self.wrapper = wrapper

    def install(self):
        setattr(self.owner, self.attr, self.wrapper)

    def remove(self):
        setattr(self.owner, self.attr, self.orig)


# ====================================================================================== iterator model

class ItModel:
    """ImageIterator as documented: repeat passes over frames 0..n-1; seek(pos) sets the next frame
    without affecting the repeat count; loop_no None before the start, repeat countdown changing on
    the first iteration of each loop (-1 throughout for infinite), 0 at the end."""

    def __init__(self, repeat, n):
        self.repeat, self.n = repeat, n
        self.started = self.closed = self.exhausted = False
        self.nxt = 0
        self.done = 0
        self.loop_no = None

    def next(self):
        if self.closed:
            return None
        if not self.started:
            self.started = True
            self.loop_no = self.repeat
        if self.nxt >= self.n:
            self.nxt = 0
            self.done += 1
            if self.repeat > 0:
                self.loop_no = self.repeat - self.done
                if self.done >= self.repeat:
                    self.closed = self.exhausted = True
                    return None
        k = self.nxt
        self.nxt += 1
        return k


# ====================================================================================== world

ITERM_PAYLOAD = re.compile(r"(\x1b\]1337;File=)size=\d+(;[^:]*:)([A-Za-z0-9+/=]*)")


class World:
    def __init__(self, case, rec):
        self.case, self.rec = case, rec
        self.style = case["style"]
        self.cls = {"block": I.BlockImage, "kitty": I.KittyImage, "iterm2": I.ITerm2Image}[self.style]
        self.kind = case["source"]["kind"]
        self.animated = bool(case["source"]["image"].get("anim"))
        self.n = case["source"]["image"]["n"] if self.animated else 1
        self.image = self.pil = self.twin = None
        self.its = []            # dicts: it, m, fields, spec, started_file
        self.img_closed = False
        self.ctx = None          # context tag added to every later violation signature
        self.tell = 0            # expected image.tell(); None = unspecified
        self.size = None         # expected image.size
        self.dirs = ()
        self.base = Counter()
        self.rw = []             # ResourceWarning messages about image files
        self.trace = []
        self.flags = set()
        self.kinds = []
        self.exp_cache = {}

    # ------------------------------------------------------------------ helpers
    def fail(self, msg, kind, **sig):
        s = {"kind": kind}
        s.update(sig)
        if self.ctx:
            s["ctx"] = self.ctx
        c = self.case
        raise Violation(
            f"{msg}\n  style={c['style']} source={c['source']['kind']} "
            f"{'anim ' + c['source']['image'].get('fmt', '') + ' n=' + str(self.n) if self.animated else 'still'} "
            f"cfg={c['cfg']} size0={c['size0']}\n  trace={self.trace[-10:]}", s)

    def fds(self):
        out = Counter()
        for name in os.listdir("/proc/self/fd"):
            try:
                t = os.readlink("/proc/self/fd/" + name)
            except OSError:
                continue
            if t.endswith(" (deleted)"):
                t = t[: -len(" (deleted)")]
            if t.startswith(self.dirs):
                out[t] += 1
        return out

    def caller_fds(self):
        """Number of descriptors currently held open by the caller's PIL image (PIL keeps, swaps and
        closes .fp/._fp on its own depending on the format; Pillow is trusted base)."""
        nums = set()
        if self.pil is not None:
            for f in (getattr(self.pil, "fp", None), getattr(self.pil, "_fp", None)):
                try:
                    if f is not None and not f.closed:
                        nums.add(f.fileno())
                except (AttributeError, OSError, ValueError):
                    pass
        return len(nums)

    def live_file_iters(self):
        if self.kind not in ("file", "url"):
            return 0
        return sum(1 for e in self.its if e["it"] is not None and not e["m"].closed)

    def sync_twin(self):
        tw, sz = self.twin, self.size
        if isinstance(sz, tuple):
            if tw.size != sz:
                tw.set_size(*sz)
        else:
            tw.size = sz

    def twin_format(self, k, spec):
        key = (k, self.size if isinstance(self.size, tuple) else self.size.name, env.CFG.cols, env.CFG.rows, spec)
        if key not in self.exp_cache:
            self.sync_twin()
            self.twin.seek(k)
            self.exp_cache[key] = format(self.twin, spec)
        return self.exp_cache[key]

    def frame_ok(self, obs, k, e):
        """None if obs is the expected rendering of frame k, else a description of the difference."""
        f = e["fields"]
        spec = spec_text(f, e["cols"], e["rows"], a_to_w=True)
        exp = self.twin_format(k, spec)
        if obs == exp:
            return None
        if self.style == "iterm2" and "A" in f["sty"]:
            # native animation falls back to whole-image frames: same control data, payload = the
            # '+W' payload possibly scaled up to the full render size
            so, se = ITERM_PAYLOAD.sub(r"\1\2", obs), ITERM_PAYLOAD.sub(r"\1\2", exp)
            mo, me = ITERM_PAYLOAD.findall(obs), ITERM_PAYLOAD.findall(exp)
            if so == se and len(mo) == len(me) == 1:
                import base64

                try:
                    a = PILImage.open(io.BytesIO(base64.b64decode(mo[0][2])))
                    w = PILImage.open(io.BytesIO(base64.b64decode(me[0][2])))
                    a.load(), w.load()
                except Exception as x:
                    return f"'+A' frame payload is not a decodable image ({type(x).__name__}: {x})"
                if a.mode == w.mode:
                    # (resampling before vs after blending with a background differs by rounding only)
                    from PIL import ImageChops

                    d = ImageChops.difference(w.resize(a.size, PILImage.Resampling.BOX), a).getextrema()
                    worst = max(hi for _, hi in ([d] if isinstance(d[0], int) else d))
                    if worst <= 3:
                        self.flags.add("anim_fallback_scaled")
                        return None
                    return (f"'+A' frame payload ({a.mode} {a.size}) differs from the rescaled '+W' payload "
                            f"({w.mode} {w.size}) by up to {worst} levels")
                return f"'+A' frame payload is {a.mode} {a.size}, '+W' payload is {w.mode} {w.size}"
        return f"{_short(obs)} != format(twin@{k}, {spec!r}) == {_short(exp)}"

    # ------------------------------------------------------------------ invariants
    def check_size_tell(self, where):
        im = self.image
        sz = im.size
        if isinstance(self.size, tuple):
            ok = isinstance(sz, tuple) and sz == self.size
        else:
            ok = sz is self.size
        if not ok:
            self.fail(f"{where}: image.size == {sz!r}, the history last set {self.size!r}", "size_changed", at=where)
        t = im.tell()
        if self.tell is None:
            if not (isinstance(t, int) and 0 <= t < self.n):
                self.fail(f"{where}: image.tell() == {t!r} is not a frame number", "tell", at=where)
            self.tell = t
        elif t != self.tell:
            self.fail(f"{where}: image.tell() == {t}, expected {self.tell}", "tell", at=where)

    def check_pil(self, where, deep=False):
        p = self.pil
        if p is None:
            return
        try:
            if self.animated:
                if not deep:
                    return  # not perturbed mid-history; a closed file shows up in the final deep check
                p.seek(0)
            p.load()
            p.getpixel((0, 0))
        except Exception as x:
            self.fail(f"{where}: the PIL image supplied by the caller is no longer usable ({type(x).__name__}: {x})",
                      "caller_pil_closed", at=where)

    def check_resources(self, where, collect=False):
        if collect:
            gc.collect()
        now = self.fds() - self.base
        lib = sum(now.values()) - self.caller_fds()
        live = self.live_file_iters()
        if lib > live:
            self.fail(f"{where}: {lib} image file descriptor(s) opened by the library are still open with {live} "
                      f"live iterator(s): {dict(now)}", "fd_leak", at=where)
        tmp = os.listdir(C._TEMP_DIR)
        want = 1 if (self.kind == "url" and self.image is not None and not self.img_closed) else 0
        if len(tmp) != want:
            self.fail(f"{where}: the library's temp dir holds {tmp}, expected {want} file(s) "
                      f"(URL image {'open' if want else 'closed / absent'})", "temp_file", at=where, want=want)
        self.check_pil(where)

    def take_rw(self):
        out, self.rw[:] = list(self.rw), []
        return out


def _short(s):
    s = repr(s)
    return s if len(s) <= 90 else f"{s[:60]}...{s[-20:]} (len {len(s)})"


# ====================================================================================== construction

def _source_file(src):
    spec = src["image"]
    if not spec.get("anim"):
        return gen.still_file(spec, "PNG")
    if not spec.get("alpha"):
        return gen.anim_file(spec)
    # animated source with an alpha channel (written once per process): the frames of gen.anim_frames with
    # one fully transparent / semi-transparent pixel each
    import hashlib
    import json

    key = hashlib.sha1(json.dumps(spec, sort_keys=True).encode()).hexdigest()[:16]
    path = os.path.join(env.tmpdir(), f"animA-{key}.{spec['fmt'].lower()}")
    if not os.path.exists(path):
        frames = []
        for i, f in enumerate(gen.anim_frames(spec)):
            f = f.convert("RGBA")
            xy = (spec["w"] - 1, spec["h"] - 1)
            f.putpixel(xy, f.getpixel(xy)[:3] + ((0, 120, 30)[i % 3],))
            frames.append(f)
        kw = dict(save_all=True, append_images=frames[1:], duration=spec["duration"], loop=0)
        if spec["fmt"] == "WEBP":
            kw["lossless"] = True
        else:
            kw["disposal"] = 2
        frames[0].save(path, spec["fmt"], **kw)
    return path


def _set_size(image, s):
    S = I.Size
    if s[0] == "match":
        ow, oh = image.original_size
        image.set_size(ow, max(1, oh // 2))
    elif s[0] == "fixed":
        image.set_size(s[1], s[2])
    elif s[0] == "width":
        image.set_size(width=s[1])
    elif s[0] == "enumfixed":
        image.set_size(S[s[1]])
    else:
        image.size = S[s[1]]


def construct(w):
    """Builds image / twin / caller's PIL.  Returns False when the history ends with a (checked)
    construction failure."""
    case, cls, kind = w.case, w.cls, w.kind
    src = case["source"]
    path = _source_file(src)
    name = os.path.basename(path)
    if kind in ("url404", "urlbad", "urlarg"):
        kw = {}
        if kind == "url404":
            from term_image.exceptions import URLNotFoundError as exc

            url = SERVER.url("missing-" + name)
        elif kind == "urlbad":
            from PIL import UnidentifiedImageError as exc

            with open(path, "rb") as f:
                data = f.read()
            body = {"text": b"<html>this is not an image</html>", "empty": b"", "cut": data[:5]}[src["body"]]
            url = SERVER.url(f"bad-{src['body']}-{name}", body)
        else:
            with open(path, "rb") as f:
                url = SERVER.url(name, f.read())
            kw, exc = {"width": 0}, ValueError
        try:
            im = cls.from_url(url, **kw)
        except exc:
            pass
        except Exception as x:
            w.fail(f"from_url({kind}) raised {type(x).__name__}: {x}, expected {exc.__name__}", "from_url_exception")
        else:
            im.close()
            w.fail(f"from_url({kind}) succeeded", "from_url_accepted")
        w.rec.label("ctor_failure")
        w.flags.add("url")
        w.check_resources("failed from_url", collect=True)
        return False
    if kind == "file":
        w.image = cls.from_file(path)
    elif kind == "url":
        with open(path, "rb") as f:
            main_url = SERVER.url(name, f.read())
            w.image = cls.from_url(main_url)
        w.flags.add("url")
        if case.get("sibling_url", True):
            # a second image from the very same URL is open for a while, then closed: the first keeps its own copy
            sib = cls.from_url(main_url)
            n_tmp = len(os.listdir(C._TEMP_DIR))
            sib.close()
            del sib
            if n_tmp != 2:
                w.fail(f"two images from the same URL are open and the library's temp dir holds {n_tmp} file(s)",
                       "temp_file", at="same-URL image", want=2)
            if len(os.listdir(C._TEMP_DIR)) != 1:
                w.fail(f"after closing a second image from the same URL the temp dir holds {os.listdir(C._TEMP_DIR)}", "temp_file",
                       at="same-URL image closed", want=1)
            # a second image from another URL with the same file name but other content is open for a while: each URL
            # image has its own private copy
            import io as _io

            buf = _io.BytesIO()
            PILImage.new("RGB", (3, 2), (9, 99, 199)).save(buf, "PNG")
            sib = cls.from_url(SERVER.url("other/" + name, buf.getvalue()))
            n_tmp = len(os.listdir(C._TEMP_DIR))
            sib.close()
            if n_tmp != 2:
                w.fail(f"two URL images with the same file name are open and the library's temp dir holds {n_tmp} file(s)",
                       "temp_file", at="sibling URL image", want=2)
            if len(os.listdir(C._TEMP_DIR)) != 1:
                w.fail(f"after closing the second URL image the temp dir holds {os.listdir(C._TEMP_DIR)}", "temp_file",
                       at="sibling URL image closed", want=1)
    elif kind == "pil_mem":
        w.pil = gen.build_image(src["image"])
        w.image = cls(w.pil)
    else:  # pil / pil_open
        w.pil = PILImage.open(path)
        if w.animated:
            w.pil.seek(src.get("start", 0))
            w.tell = src.get("start", 0)
        else:
            w.pil.load()  # single-frame files are closed by PIL itself once loaded
        w.image = cls(w.pil)
    w.twin = cls.from_file(path)
    if w.style == "iterm2" and case.get("rff", "unset") != "unset":
        w.image.read_from_file = w.twin.read_from_file = case["rff"]
    _set_size(w.image, case["size0"])
    w.size = w.image.size
    if w.image.is_animated is not w.animated or w.image.n_frames != w.n:
        w.fail(f"is_animated/n_frames == {w.image.is_animated}/{w.image.n_frames}, source has {w.n} frame(s)", "n_frames")
    return True


# ====================================================================================== operations

def _new_iter(w, p, inj):
    """Creates an iterator from params p; returns the entry or None."""
    from term_image.exceptions import StyleError, TermImageError

    image = w.image
    fields = p.get("spec") or {"h": None, "w": 1, "v": None, "ht": 1, "alpha": "", "sty": ""}
    repeat, cached = p.get("repeat", 1), p.get("cached", False)
    spec = spec_text(fields)
    expect = None
    if p["ctor"] == "bad":
        b = p["bad"]
        if b == "repeat0":
            repeat, expect = 0, ValueError
        elif b == "cached0":
            cached, expect = 0, ValueError
        elif b == "cached-1":
            cached, expect = -1, ValueError
        elif b == "spec_value":
            spec, expect = spec_text(dict(fields, sty="")) + "~", ValueError
        else:
            spec, expect = spec_text(dict(fields, sty="")) + "+Q", StyleError
    if not w.animated:
        expect = ValueError
    try:
        if p["ctor"] == "iter":
            it = iter(image)
        else:
            it = I.ImageIterator(image, repeat, spec, cached)
    except Exception as x:
        ok = expect is not None and isinstance(x, expect) or w.img_closed and isinstance(x, TermImageError)
        name = type(x).__name__
        del x
        if not ok:
            w.fail(f"ImageIterator(repeat={repeat}, spec={spec!r}, cached={cached}) raised {name}", "iter_ctor", exc=name)
        w.flags.add("ctor_rejected")
        return None
    if expect is not None or w.img_closed:
        it.close()
        w.fail(f"ImageIterator(repeat={repeat}, spec={spec!r}, cached={cached}) on a "
               f"{'finalized' if w.img_closed else 'still' if not w.animated else 'animated'} image was accepted",
               "iter_ctor_accepted")
    e = {"it": it, "m": ItModel(1 if p["ctor"] == "iter" else repeat, w.n), "fields": fields,
         "cols": env.CFG.cols, "rows": env.CFG.rows,
         "cached": p["ctor"] != "iter" and repeat != 1 and (cached if isinstance(cached, bool) else w.n <= cached)}
    w.its.append(e)
    if it.loop_no is not None:
        w.fail(f"loop_no == {it.loop_no!r} before iteration started", "loop_no")
    return e


def _pick_iter(w, idx, inj):
    pop = [e for e in w.its if e["it"] is not None]
    if not pop:
        if not w.animated or w.img_closed:
            return None
        return _new_iter(w, w.case["it0"], inj)
    return pop[idx % len(pop)]


def _judge_fault(w, inj, x, what):
    """x: exception raised by an op during which the fault fired (or None)."""
    from term_image.exceptions import RenderError

    if x is None:
        w.fail(f"{what}: the injected {inj.site} failure was swallowed (operation returned normally)",
               "fault_swallowed", site=inj.site)
    ours, inj.exc = inj.exc, None  # the exception (traceback -> frames -> PIL images) must not outlive the op
    if x is ours:
        return
    if isinstance(x, RenderError) and x.__cause__ is ours and inj.site in ("convert", "resize"):
        w.flags.add("render_error_wrapped")
        return
    del ours
    w.fail(f"{what}: injected {inj.site} failure surfaced as {type(x).__name__}: {x}", "fault_masked", site=inj.site)


def do_op(w, o, inj):
    """Executes one op against library + model.  Returns the number of injector calls it made."""
    from term_image.exceptions import InvalidSizeError, TermImageError

    image, kind = w.image, o["op"]
    w.kinds.append(kind)
    calls0 = inj.calls if inj else 0
    fired0 = inj.fired if inj else False
    strict = False       # ResourceWarnings during this op are violations
    collect = False
    note = None

    def armed(fn):
        """Runs fn with the injector armed; returns (result, exception)."""
        if inj:
            inj.armed = True
        try:
            return fn(), None
        except Exception as x:
            return None, x
        finally:
            if inj:
                inj.armed = False

    def fired():
        return bool(inj and inj.fired and not fired0)

    if kind in ("str", "format", "draw"):
        animated_draw = kind == "draw" and w.animated and o["animate"]
        if kind == "str":
            fn = lambda: str(image)
        elif kind == "format":
            spec = spec_text(o["spec"])
            fn = lambda: format(image, spec)
        else:
            kw = dict(animate=o["animate"], repeat=o["repeat"], cached=o["cached"], check_size=o["check_size"], **o["style"])
            if o["alpha"] != "default":
                kw["alpha"] = o["alpha"]

            budget = [o["repeat"] * w.n + 3]

            def nosleep(_):
                budget[0] -= 1
                if budget[0] < 0:
                    raise _Runaway(f"draw(repeat={o['repeat']}) of a {w.n}-frame image displayed more than "
                                   f"{o['repeat'] * w.n + 3} frames")

            def fn():
                old, sl = sys.stdout, C.time.sleep
                sys.stdout = io.StringIO()
                C.time.sleep = nosleep
                try:
                    image.draw(**kw)
                    return sys.stdout.getvalue()
                finally:
                    sys.stdout, C.time.sleep = old, sl

        res, x = armed(fn)
        if fired():
            _judge_fault(w, inj, x, kind)
            w.flags.add("fault_fired")
            note = "fault"
            collect = True
        elif x is not None:
            name, msg = type(x).__name__, str(x)
            ok = (w.img_closed and isinstance(x, TermImageError)
                  or kind == "draw" and isinstance(x, InvalidSizeError)
                  or w.img_closed and kind == "draw" and isinstance(x, ValueError))
            del x
            if not ok:
                w.fail(f"{kind} raised {name}: {msg}", "op_exception", op=kind, exc=name)
            note = name
        else:
            if w.img_closed:
                w.fail(f"{kind} on a finalized image succeeded", "closed_image_rendered", op=kind)
            if not isinstance(res, str):
                w.fail(f"{kind} returned {type(res).__name__}", "op_result", op=kind)
            strict = not animated_draw
            if animated_draw:
                w.flags.add("animated_draw")
            if w.animated and kind in ("str", "format") and not (kind == "format" and "A" in o["spec"]["sty"]):
                # a direct render shows the image's current frame: the same text an independent second image object of
                # the same source gives at that frame (whatever iterators / draws did to the first one before)
                if kind == "format":
                    exp = w.twin_format(w.tell, spec)
                else:
                    w.sync_twin()
                    w.twin.seek(w.tell)
                    exp = str(w.twin)
                if res != exp:
                    w.fail(f"{kind} of the image at frame {w.tell} differs from the same render of an independent image object "
                           f"of the same source at that frame: {_short(res)} != {_short(exp)}", "direct_render_frame", op=kind)
                w.flags.add("direct_render_compared")
        x = None

    elif kind == "iter":
        e = _new_iter(w, o["p"], inj) if len([e for e in w.its if e["it"] is not None]) < 4 else None
        note = "new" if e else "none"

    elif kind == "next":
        e = _pick_iter(w, o["it"], inj)
        if e is None:
            note = "no_iter"
        else:
            note = _do_nexts(w, e, o["k"], inj, armed, fired)
            strict = True
            if fired():
                collect = True

    elif kind == "seek":
        e = _pick_iter(w, o["it"], inj)
        if e is None:
            note = "no_iter"
        else:
            m, pos = e["m"], o["pos"]
            if o.get("pre"):
                _do_nexts(w, e, o["pre"], inj, armed, fired)
                if fired():
                    collect = True
            if not 0 <= pos < w.n:
                exp = "ValueError"
            elif not m.started or m.closed:
                exp = "TermImageError"
            else:
                exp = None
            try:
                e["it"].seek(pos)
                got = None
            except (ValueError, TermImageError) as x:
                got = "TermImageError" if isinstance(x, TermImageError) else "ValueError"
            except Exception as x:
                got = type(x).__name__
            if got != exp and not (w.img_closed and got == "TermImageError" and exp == "ValueError"):
                w.fail(f"iterator.seek({pos}) -> {got or 'ok'}, expected {exp or 'ok'} "
                       f"(started={m.started} closed={m.closed} n={w.n})", "it_seek", exp=exp, got=got)
            if exp is None:
                m.nxt = pos
                w.flags.add("seek")
            else:
                w.flags.add("seek_rejected")
            note = got or pos

    elif kind in ("close", "drop"):
        e = _pick_iter(w, o["it"], inj)
        if e is None:
            note = "no_iter"
        else:
            m = e["m"]
            early = m.started and not m.closed
            if not m.closed:
                w.flags.add("early_close" if kind == "close" else "abandon")
            if not m.started:
                w.flags.add("unstarted_" + kind)
            if kind == "close":
                try:
                    e["it"].close()
                    e["it"].close()  # idempotent
                except Exception as x:
                    w.fail(f"iterator.close() raised {type(x).__name__}: {x}", "it_close_exception")
                strict = early and not w.img_closed
            else:
                e["it"] = None
                collect = True
                strict = early and not w.img_closed
            m.closed = True
            note = "early" if early else "-"

    elif kind in ("img_close", "with"):
        live = any(e["it"] is not None and not e["m"].closed for e in w.its)
        if kind == "img_close":
            image.close()
            image.close()
        else:
            with image as im2:
                if im2 is not image:
                    w.fail("`with image as x`: x is not the image", "with")
                if o["inner"] == "str" and not w.img_closed:
                    str(image)
                elif o["inner"] == "next":
                    e = _pick_iter(w, 0, inj)
                    if e is not None:
                        live = True
                        _do_nexts(w, e, 1, inj, armed, fired)
            w.flags.add("with")
        if not image.closed:
            w.fail("image.closed is False after close()", "closed_flag")
        if not w.img_closed and live:
            w.ctx = "image_closed_before_iterator"
            w.flags.add("img_closed_live_iter")
        w.img_closed = True
        w.flags.add("img_closed")
        collect = True

    elif kind == "img_seek":
        k = o["k"]
        try:
            image.seek(k)
            got = None
        except ValueError:
            got = "ValueError"
        except TermImageError:
            got = "TermImageError"
        exp = None if 0 <= k < w.n else "ValueError"
        if got != exp and not (w.img_closed and got == "TermImageError"):
            w.fail(f"image.seek({k}) -> {got or 'ok'}, expected {exp or 'ok'} (n={w.n})", "img_seek")
        if got is None and w.animated:
            w.tell = k
        note = got or k

    elif kind == "size":
        _set_size(image, o["size"])
        w.size = image.size
        if any(e["it"] is not None and e["m"].started and not e["m"].closed for e in w.its):
            w.flags.add("size_change_live")
        note = repr(w.size)

    elif kind == "resize":
        env.apply(cols=o["cols"], rows=o["rows"])
        if any(e["it"] is not None and e["m"].started and not e["m"].closed for e in w.its):
            w.flags.add("size_change_live")

    n_calls = (inj.calls - calls0) if inj else 0
    w.trace.append((kind, {a: b for a, b in o.items() if a not in ("op", "spec", "p", "style")}, note))
    where = f"after op #{len(w.kinds) - 1} {kind}"
    w.check_size_tell(where)
    w.check_resources(where, collect=collect)
    rws = w.take_rw()
    if rws:
        if strict and not fired():
            w.fail(f"{where}: image file left to the garbage collector instead of being closed: {rws[:2]}",
                   "gc_closed", op=kind)
        w.rec.count("gc_closed_tolerated", len(rws))
    return n_calls


def _do_nexts(w, e, k, inj, armed, fired):
    from term_image.exceptions import TermImageError

    it, m = e["it"], e["m"]
    notes = []
    for _ in range(k):
        was_closed = m.closed
        exp = m.next()
        had_fired = fired()
        res, x = armed(lambda: next(it))
        if fired() and not had_fired:
            if isinstance(x, StopIteration):
                w.fail(f"next(): the injected {inj.site} failure was swallowed (StopIteration)", "fault_swallowed", site=inj.site)
            _judge_fault(w, inj, x, "next()")
            x = None
            w.flags.add("fault_fired")
            w.flags.add("fault_in_next")
            m.closed = True
            w.tell = None
            notes.append("fault")
            # "a next() that failed closes the iterator": its file must be closed now, not at the next call
            w.check_resources("right after a failed next()", collect=True)
            try:
                next(it)
            except StopIteration:
                pass
            except Exception as y:
                w.fail(f"next() after a failed next() raised {type(y).__name__}: {y}", "next_after_failure")
            else:
                w.fail("an iterator whose next() failed keeps yielding frames", "next_after_failure")
            continue
        if exp is None:
            if not isinstance(x, StopIteration):
                got = _short(res) if x is None else f"{type(x).__name__}: {x}"
                x = None
                w.fail(f"next() on a{'n exhausted' if m.exhausted else ' closed'} iterator (repeat={m.repeat}, n={w.n}) "
                       f"-> {got}, expected StopIteration", "next_no_stop", exhausted=m.exhausted)
            x = None
            if m.exhausted and not was_closed:
                w.tell = 0
                w.flags.add("exhausted")
            notes.append("stop")
        else:
            if x is not None:
                name, msg = type(x).__name__, str(x)
                finalized = w.img_closed and isinstance(x, TermImageError)
                x = None
                if finalized:  # documented clean rejection: "This image has been finalized"
                    m.closed = True
                    notes.append("finalized")
                    continue
                w.fail(f"next() raised {name}: {msg}; expected frame {exp} (pass {m.done + 1} of {m.repeat})",
                       "next_exception", exc=name)
            bad = w.frame_ok(res, exp, e)
            if bad:
                w.fail(f"pass {m.done + 1}/{m.repeat} position -> frame {exp} (cached={e['cached']}): {bad}", "frame",
                       cached=bool(e["cached"]), anim_fallback="A" in e["fields"]["sty"])
            w.tell = exp
            if m.done >= 1:
                w.flags.add("multi_pass")
                if e["cached"]:
                    w.flags.add("cached_multi_pass")
            notes.append(exp)
        if it.loop_no != m.loop_no:
            w.fail(f"loop_no == {it.loop_no!r} after {notes}, expected {m.loop_no!r} (repeat={m.repeat}, n={w.n})", "loop_no")
        t = w.image.tell()
        if w.tell is not None and t != w.tell:
            w.fail(f"image.tell() == {t} after next() -> {notes[-1]}, expected {w.tell}", "tell", at="next")
    return notes


# ====================================================================================== history runner

_RUNS = [0]


def run_history(case, rec, fault=None, count_site=None):
    """Runs the history once.  fault = (site, op index, call index, exc name, when) or None.
    Returns (world, per-op call counts of count_site)."""
    env.reset()
    cfg = dict(case["cfg"])
    env.CFG.set(bg=cfg.pop("bg"))
    env.apply(**cfg)
    w = World(case, rec)
    w.dirs = (env.tmpdir() + os.sep, C._TEMP_DIR + os.sep)
    site = fault[0] if fault else count_site
    inj = Injector(site) if site else None
    counts = []
    # leftovers of an earlier (failed) case in this process must not be blamed on this one
    gc.collect()
    _RUNS[0] += 1
    if _RUNS[0] % 64 == 0:
        gc.freeze()  # Hypothesis' growing search tree would make every later gc.collect() slower
    for name in os.listdir(C._TEMP_DIR):
        try:
            os.remove(os.path.join(C._TEMP_DIR, name))
        except OSError:
            pass

    def hook(message, category, filename, lineno, file=None, line=None):
        if issubclass(category, ResourceWarning):
            s = str(message)
            if any(d in s for d in w.dirs):
                w.rw.append(s[:160])

    with warnings.catch_warnings():
        warnings.simplefilter("ignore")
        warnings.simplefilter("always", ResourceWarning)
        warnings.showwarning = hook
        if inj:
            inj.install()
        try:
            _source_file(case["source"])  # written before the baseline is taken
            w.base = w.fds()
            if construct(w):
                w.check_size_tell("after construction")
                w.check_resources("after construction")
                rws = w.take_rw()
                if rws:
                    w.fail(f"construction left an image file to the garbage collector: {rws[:2]}", "gc_closed", op="construct")
                for i, o in enumerate(case["ops"]):
                    if fault and i == fault[1]:
                        inj.fire_at = inj.calls + fault[2]
                        inj.exc = {"RuntimeError": RuntimeError, "OSError": OSError}[fault[3]]("vf-injected failure")
                        inj.after = fault[4] == "after"
                    counts.append(do_op(w, o, inj))
                    if inj:
                        inj.fire_at = None
                        inj.exc = None  # the exception (and its traceback) must not outlive the op
                # epilogue: abandon everything
                for e in w.its:
                    e["it"] = None
                    e["m"].closed = True
                w.image = None
                w.img_closed = True
                w.check_resources("after abandoning every iterator and the image", collect=True)
                w.check_pil("after abandoning every iterator and the image", deep=True)
                w.take_rw()
        finally:
            if inj:
                inj.remove()
            for e in w.its:
                e["it"] = None
            if w.twin is not None:
                w.twin.close()
            w.image = w.twin = None
            if w.pil is not None:
                try:
                    w.pil.close()
                except Exception:
                    pass
            gc.collect()
    return w, counts


def check_history(case, rec):
    f = case.get("fault")
    w, counts = run_history(case, rec, count_site=f["site"] if f else None)
    flags, kinds = set(w.flags), list(w.kinds)
    site = None
    if f:
        targets = [i for i, c in enumerate(counts) if c > 0]
        if targets:
            j = targets[f["op"] % len(targets)]
            w2, _ = run_history(case, rec, fault=(f["site"], j, f["k"] % counts[j], f["exc"], f["when"]))
            flags |= w2.flags
            if "fault_fired" not in w2.flags:
                raise AssertionError(f"harness: fault {f} planned at op {j} (of {counts}) did not fire")
            site = f["site"]
            rec.label("fault:" + site)
        else:
            rec.label("fault_unreachable")
    src = case["source"]["kind"]
    rec.label("style:" + case["style"], "src:" + src, "animated" if case["source"]["image"].get("anim") else "still",
              *sorted(flags))
    if flags & {"early_close", "abandon", "fault_fired", "url"}:
        rec.nontriv([src, case["style"], kinds, site])


CLAUSES = [
    Clause(
        "history",
        check_history,
        cases,
        budget={"quick": 6000, "thorough": 200000},
        floors={"src:file": 0.15, "src:pil": 0.06, "src:url": 0.12, "still": 0.05, "style:block": 0.15,
                "style:kitty": 0.15, "style:iterm2": 0.15, "fault_fired": 0.07, "fault_in_next": 0.04,
                "early_close": 0.05, "abandon": 0.04, "exhausted": 0.04, "cached_multi_pass": 0.04, "seek": 0.04,
                "size_change_live": 0.04, "animated_draw": 0.04, "ctor_failure": 0.06},
    ),
]
