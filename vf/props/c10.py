"""C10 — render data is finalized exactly once and never used afterwards."""

from __future__ import annotations

import gc
import io
import sys

from hypothesis import strategies as st

from .. import iterlab
from ..core import Clause, Violation

META = {
    "level": "exploration",
    "rule": (
        "Generated histories on one instrumented renderable (non-animated / definite / Sub / INDEFINITE stream) "
        "whose render class registers every RenderData it creates and counts _finalize_render_data_ calls: render, "
        "str, draw (still/animated into StringIO, with size-validation failures), new iterators via the three "
        "constructors (incl. caller-owned data, finalize=False), next/seek/close/drop+gc per iterator, explicit "
        "finalize() of caller-owned data, and an exception (RenderError, arbitrary Exception, StopIteration from a "
        "definite source, KeyboardInterrupt in draw) injected into the k-th frame render. After every operation: "
        "finalize count <= 1 for every data object, == 1 for data whose owning operation returned or raised or "
        "whose iterator is exhausted/closed/failed/collected, == 0 for caller-owned data until the caller "
        "finalizes; no _render_ ever saw finalized data; closed iterators stop and reject control operations. "
        "Non-trivial = history with a fault, an abandonment or caller-owned data; distinct by (renderable kind, "
        "op-kind sequence, fault kind). Op it_reenter: a frame's render calls close() on its own iterator (rejected, "
        "changes nothing). Clause families: a fresh class hierarchy per case (Parent without data finalizer, Child "
        "defining one, GrandChild inheriting, Sibling without) used in generated order via render/str/draw/iterate; "
        "every data object finalized once, its class's finalizer ran exactly once; non-trivial = a finalizer-less "
        "and a finalizing class both used."
    ),
    "assumptions": [
        "'finalized when the operation fails' is checked as soon as the failing call has raised (the harness "
        "does not keep the exception/traceback alive), i.e. without relying on garbage collection, except for "
        "the explicit drop+gc op",
    ],
}

env = P = None


def setup():
    global env, P
    from .. import env as _env, hren

    _env.install()
    import term_image.padding as _P
    import term_image.render  # noqa
    import term_image.renderable._renderable as RR

    RR.sleep = lambda *_: None  # no real waiting inside animations
    env, P = _env, _P
    hren.classes()


FAULTS = ["RenderError", "RuntimeError", "StopIteration", "KeyboardInterrupt"]


def animated_kind(kind):
    return kind in ("grid", "sub")


@st.composite
def cases(draw):
    kind = draw(st.sampled_from(["still", "grid", "grid", "sub", "stream"]))
    n = 1 if kind == "still" else (draw(st.integers(0, 5)) if kind == "stream" else draw(st.integers(2, 5)))
    c = {"kind": kind, "n": n, "w": draw(st.integers(1, 4)), "h": draw(st.integers(1, 3)),
         "cols": draw(st.integers(1, 12)), "rows": draw(st.integers(1, 8))}
    ops = []
    for _ in range(draw(st.integers(1, 14))):
        k = draw(st.sampled_from(["render", "str", "draw", "draw", "new_iter", "new_iter", "it_next", "it_next",
                                  "it_nexts", "it_seek", "it_close", "it_drop", "it_drop", "data_finalize", "fault", "it_ctl",
                                  "resize", "bad_args", "it_reenter"]))
        o = {"op": k}
        if k in ("render", "draw", "new_iter"):
            o["pad"] = draw(iterlab.pad_spec())
            o["fill"] = draw(st.sampled_from([" ", ""]))
        if k == "draw":
            o["animate"] = draw(st.booleans())
            o["loops"] = draw(st.sampled_from([1, 2]))
            o["cache"] = draw(st.sampled_from([False, True, 100]))
            o["check_size"] = draw(st.booleans())
            o["allow_scroll"] = draw(st.booleans())
        if k == "new_iter":
            o["ctor"] = draw(st.sampled_from(["init", "iter", "from_data", "from_data_keep"]))
            o["loops"] = draw(st.sampled_from([1, 2, -1]))
            o["cache"] = draw(st.sampled_from([False, True]))
        if k in ("it_next", "it_nexts", "it_seek", "it_close", "it_drop", "data_finalize", "it_ctl", "it_reenter"):
            o["i"] = draw(st.integers(0, 3))
        if k == "it_nexts":
            o["k"] = draw(st.integers(2, 7))
        if k == "it_seek":
            o["off"] = draw(st.integers(-2, 5))
            o["whence"] = draw(st.integers(0, 2))
        if k == "fault":
            o["after"] = draw(st.integers(1, 4))
            o["exc"] = draw(st.sampled_from(FAULTS))
        if k == "resize":
            o["cols"], o["rows"] = draw(st.integers(1, 12)), draw(st.integers(1, 8))
        if k == "bad_args":
            o["keep"] = draw(st.booleans())
        ops.append(o)
    if animated_kind(kind) and draw(st.booleans()):
        # the pattern the cache makes delicate: a complete first loop (+1), a setting change, another frame
        ops += [{"op": "new_iter", "pad": ["exact", 0, 0, 0, 0], "fill": " ", "ctor": draw(st.sampled_from(["init", "from_data"])),
                 "loops": draw(st.sampled_from([2, -1])), "cache": True},
                {"op": "it_nexts", "i": -1, "k": n + draw(st.integers(0, 2))},
                {"op": "it_ctl", "i": -1}, {"op": "it_next", "i": -1}, {"op": "it_nexts", "i": -1, "k": n}]
    if animated_kind(kind) and kind != "stream" and draw(st.integers(0, 2)) == 0:
        # exactly up to the last frame of the last loop (the iterator is not exhausted yet), then back and on
        lp = draw(st.sampled_from([1, 2]))
        ops += [{"op": "new_iter", "pad": ["exact", 0, 0, 0, 0], "fill": " ", "ctor": "init", "loops": lp,
                 "cache": draw(st.booleans())},
                {"op": "it_nexts", "i": -1, "k": n * lp},
                {"op": "it_seek", "i": -1, "off": draw(st.integers(0, 1)), "whence": 0},
                {"op": "it_ctl", "i": -1}, {"op": "it_next", "i": -1}]
    if draw(st.integers(0, 2)) == 0:
        ops.insert(draw(st.integers(0, len(ops))), {"op": "bad_ctor", "how": draw(st.sampled_from(["loops0", "cache0", "cache_neg", "nonanimated"]))})
    c["ops"] = ops
    # the whole history runs while the caller is handling an unrelated exception (inside an `except` block)
    c["handling"] = draw(st.integers(0, 2)) == 0
    return c


class ItState:
    def __init__(self, it, entry, owned):
        self.it = it
        self.entry = entry  # [data, count]
        self.owned = owned  # iterator finalizes the data
        self.closed = False
        self.caller_finalized = False


def check_history(case, rec):
    if case.get("handling"):
        rec.label("while_handling_an_exception")
        try:
            raise LookupError("an unrelated error the caller is handling")
        except LookupError:
            return _check_history(case, rec)
    return _check_history(case, rec)


def _check_history(case, rec):
    from term_image.render import FinalizedIteratorError, RenderIterator
    from term_image.renderable import RenderArgs, RenderError, Seek

    from .. import hren

    H = hren.classes()
    env.reset()
    H["forget"]()
    env.apply(cols=case["cols"], rows=case["rows"])
    kind = case["kind"]
    if kind == "still":
        r = H["new"]("grid", case["w"], case["h"])
    elif kind == "stream":
        r = H["new"]("stream", case["w"], case["h"], case["n"], 40)
    else:
        r = H["new"](kind, case["w"], case["h"], case["n"], 40)
    animated = kind != "still"
    its: list[ItState] = []
    expect_final = set()  # ids of datas entries that must be finalized by now
    flags = set()
    kinds = []
    trace = []

    def padding(o):
        spec = o["pad"]
        if spec[0] == "aligned":
            return P.AlignedPadding(spec[1], spec[2], P.HAlign(spec[3]), P.VAlign(spec[4]), o["fill"])
        return P.ExactPadding(*spec[1:5], o["fill"])

    def fail(msg, sig):
        raise Violation(f"{msg}\n  renderable={kind} n={case['n']}\n  trace={trace[-10:]}", sig)

    def invariants(after):
        if any(e[0] == "render_with_finalized_data" for e in r.log):
            fail(f"a frame was rendered with already-finalized render data (after {after})", {"kind": "use_after_finalize"})
        for idx, (data, count) in enumerate(r.datas):
            if count > 1:
                fail(f"render data #{idx} finalized {count} times (after {after})", {"kind": "double_finalize"})
            if count != int(data.finalized):
                fail(f"render data #{idx}: finalized flag {data.finalized} but {count} finalize calls", {"kind": "flag"})
            if idx in expect_final and count != 1:
                fail(f"render data #{idx} not finalized although its operation/iterator is over (after {after})",
                     {"kind": "not_finalized", "after": after["op"]})
        for st_ in its:
            if not st_.owned and not st_.caller_finalized and st_.entry[1] != 0:
                fail(f"caller-owned render data was finalized by the library (after {after})", {"kind": "caller_owned"})

    def one_shot(o, fn, what):
        """An operation that creates its data and must leave it finalized, returned or raised."""
        n0 = len(r.datas)
        real = sys.stdout
        sys.stdout = io.StringIO()
        outcome = "ok"
        try:
            fn()
        except KeyboardInterrupt:
            outcome = "KeyboardInterrupt"
        except Exception as e:
            outcome = type(e).__name__
        finally:
            sys.stdout = real
        for idx in range(n0, len(r.datas)):
            expect_final.add(idx)
        trace.append((what, outcome))
        return outcome

    for o in case["ops"]:
        k = o["op"]
        kinds.append(k)
        if k == "resize":
            env.apply(cols=o["cols"], rows=o["rows"])
            continue
        if k == "fault":
            exc = {"RenderError": lambda: RenderError("injected"), "RuntimeError": lambda: RuntimeError("injected"),
                   "StopIteration": StopIteration, "KeyboardInterrupt": KeyboardInterrupt}[o["exc"]]
            r.fail_at = (r.renders + o["after"], exc)
            flags.add("fault:" + o["exc"])
            continue
        if k == "render":
            one_shot(o, lambda: r.render(None, padding(o)), "render")
        elif k == "str":
            one_shot(o, lambda: str(r), "str")
        elif k == "bad_ctor":
            # a rejected iterator construction: whatever render data it created must be finalized when it has failed
            n0 = len(r.datas)
            how = o["how"]
            try:
                if how == "nonanimated" or not animated:
                    if animated:
                        continue
                    iter(r)
                elif how == "loops0":
                    RenderIterator(r, None, padding({"pad": ["exact", 0, 0, 0, 0], "fill": " "}), 0, True)
                elif how == "cache0":
                    RenderIterator(r, None, padding({"pad": ["exact", 0, 0, 0, 0], "fill": " "}), 1, 0)
                else:
                    RenderIterator(r, None, padding({"pad": ["exact", 0, 0, 0, 0], "fill": " "}), 1, -3)
                fail(f"invalid iterator construction ({how}) accepted", {"kind": "ctor_accept"})
            except Violation:
                raise
            except Exception:
                pass
            for idx in range(n0, len(r.datas)):
                expect_final.add(idx)
            flags.add("bad_ctor")
            trace.append(("bad_ctor", how))
        elif k == "bad_args" and animated and o.get("keep"):
            # a failed iterator construction from caller-owned data (finalize=False): the data stays the caller's,
            # un-finalized, and the caller can finalize it (once) afterwards
            n0 = len(r.datas)
            data = r._get_render_data_(iteration=True)
            try:
                RenderIterator._from_render_data_(r, data, RenderArgs(H["Other"], H["OtherArgs"](1)), None, 1, False, finalize=False)
                fail("incompatible render args accepted by RenderIterator._from_render_data_()", {"kind": "args"})
            except Violation:
                raise
            except Exception:
                pass
            if data.finalized or r.datas[n0][1] != 0:
                fail("render data handed in with finalize=False was finalized by a failed iterator construction "
                     f"(finalize calls: {r.datas[n0][1]})", {"kind": "caller_owned_finalized", "where": "failed_ctor"})
            # ... and a construction that fails later, while the iterator is being set up (a padding that raises)

            class BadPad(P.Padding):
                __slots__ = ()

                def _get_exact_dimensions_(self, render_size):
                    raise RuntimeError("padding cannot be computed")

            try:
                RenderIterator._from_render_data_(r, data, None, BadPad(), 1, False, finalize=False)
                fail("a padding that raises was accepted by RenderIterator._from_render_data_()", {"kind": "args"})
            except Violation:
                raise
            except Exception:
                pass
            gc.collect()  # the half-built iterator is gone
            if data.finalized or r.datas[n0][1] != 0:
                fail("render data handed in with finalize=False was finalized after an iterator set-up that failed "
                     f"(finalize calls: {r.datas[n0][1]})", {"kind": "caller_owned_finalized", "where": "failed_setup"})
            data.finalize()
            if r.datas[n0][1] != 1:
                fail(f"caller's finalize() after a failed construction -> {r.datas[n0][1]} finalize calls", {"kind": "finalize_count"})
            expect_final.add(n0)
            data = None
            flags.add("failed_ctor_keep")
            trace.append(("bad_ctor_keep",))
        elif k == "bad_args":
            n0 = len(r.datas)
            try:
                r.render(RenderArgs(H["Other"], H["OtherArgs"](1)))
                fail("incompatible render args accepted by render()", {"kind": "args"})
            except Violation:
                raise
            except Exception:
                pass
            for idx in range(n0, len(r.datas)):
                expect_final.add(idx)
        elif k == "draw":
            out = one_shot(
                o,
                lambda: r.draw(None, padding(o), animate=o["animate"], loops=o["loops"], cache=o["cache"],
                               check_size=o["check_size"], allow_scroll=o["allow_scroll"]),
                "draw")
            if out == "RenderSizeOutofRangeError":
                flags.add("size_validation_failed")
        elif k == "new_iter":
            if not animated:
                continue
            ctor = o["ctor"]
            n0 = len(r.datas)
            try:
                if ctor == "iter":
                    it = iter(r)
                    owned = True
                elif ctor == "init":
                    it = RenderIterator(r, None, padding(o), o["loops"], o["cache"])
                    owned = True
                else:
                    data = r._get_render_data_(iteration=True)
                    owned = ctor == "from_data"
                    it = RenderIterator._from_render_data_(r, data, None, padding(o), o["loops"], o["cache"], finalize=owned)
                    if not owned:
                        flags.add("caller_owned")
            except Exception as e:
                fail(f"iterator construction ({ctor}) raised {type(e).__name__}: {e}", {"kind": "ctor"})
            if len(r.datas) != n0 + 1:
                fail(f"iterator construction created {len(r.datas) - n0} render data objects", {"kind": "ctor"})
            its.append(ItState(it, r.datas[n0], owned))
            it = data = None  # the harness keeps no reference besides ItState
            trace.append(("new_iter", ctor))
        elif k in ("it_next", "it_nexts", "it_reenter"):
            if not its:
                continue
            st_ = its[o["i"] % len(its)]
            if k == "it_reenter":
                # the frame's render itself (a callback it runs) tries to close the iterator: not possible while the frame
                # is being produced -- that close() fails and must change nothing
                def reenter(st_=st_):
                    try:
                        st_.it.close()
                    except ValueError:
                        flags.add("reentrant_close_rejected")
                        trace.append(("close_from_render_rejected",))

                r.hook_at = (r.renders + 1, reenter)
            for _ in range(o.get("k", 1)):
                try:
                    next(st_.it)
                    res = "frame"
                    if st_.closed:
                        fail("next() on a closed/exhausted iterator yielded a frame", {"kind": "closed_next"})
                except StopIteration:
                    res = "stop"
                except KeyboardInterrupt:
                    res = "KeyboardInterrupt"
                except Exception as e:
                    res = type(e).__name__
                trace.append(("next", o["i"] % len(its), res))
                if res not in ("frame", "KeyboardInterrupt"):
                    # exhausted or failed: the iterator is closed from now on
                    st_.closed = True
                if res not in ("frame", "stop"):
                    flags.add("next_failed")
                if res == "KeyboardInterrupt":
                    break
            r.hook_at = None
        elif k == "it_seek":
            if not its:
                continue
            st_ = its[o["i"] % len(its)]
            try:
                st_.it.seek(o["off"], Seek(o["whence"]))
                res = "ok"
            except FinalizedIteratorError:
                res = "finalized"
            except ValueError:
                res = "range"
            except Exception as e:
                fail(f"seek raised {type(e).__name__}: {e}", {"kind": "seek_exc"})
            if st_.closed and res != "finalized":
                fail(f"seek() on a closed/exhausted/failed iterator -> {res}, expected FinalizedIteratorError", {"kind": "closed_ctl"})
            if not st_.closed and res == "finalized":
                fail("seek() on a live iterator raised FinalizedIteratorError", {"kind": "closed_ctl"})
        elif k == "it_ctl":
            if not its:
                continue
            st_ = its[o["i"] % len(its)]
            from term_image.geometry import Size

            for name, fn in (("set_frame_duration", lambda: st_.it.set_frame_duration(50)),
                             ("set_padding", lambda: st_.it.set_padding(P.ExactPadding(1))),
                             ("set_render_size", lambda: st_.it.set_render_size(Size(2, 2))),
                             ("set_render_args", lambda: st_.it.set_render_args(RenderArgs(type(r))))):
                try:
                    fn()
                    res = "ok"
                except FinalizedIteratorError:
                    res = "finalized"
                except Exception as e:
                    fail(f"{name} raised {type(e).__name__}: {e}", {"kind": "ctl_exc"})
                if st_.closed != (res == "finalized"):
                    fail(f"{name}() on a {'closed' if st_.closed else 'live'} iterator -> {res}", {"kind": "closed_ctl"})
            if st_.closed:
                flags.add("ctl_after_close")
        elif k == "it_close":
            if not its:
                continue
            st_ = its[o["i"] % len(its)]
            for _ in range(2):  # idempotent
                try:
                    st_.it.close()
                except Exception as e:
                    fail(f"close() raised {type(e).__name__}: {e}", {"kind": "close_exc"})
            st_.closed = True
            trace.append(("close", o["i"] % len(its)))
        elif k == "it_drop":
            if not its:
                continue
            st_ = its.pop(o["i"] % len(its))
            owned, entry = st_.owned, st_.entry
            if not owned and not st_.caller_finalized:
                # caller keeps ownership: the data must survive the iterator
                st_.it = None
                gc.collect()
                if entry[1] != 0:
                    fail("caller-owned render data was finalized when its iterator was collected", {"kind": "caller_owned"})
                entry[0].finalize()
                entry[0].finalize()
                expect_final.add(r.datas.index(entry))
            else:
                st_.it = None
                del st_
                gc.collect()
                expect_final.add(r.datas.index(entry))
            flags.add("abandoned")
            trace.append(("drop",))
        elif k == "data_finalize":
            cand = [s for s in its if not s.owned]
            if not cand:
                continue
            st_ = cand[o["i"] % len(cand)]
            st_.entry[0].finalize()
            st_.entry[0].finalize()  # idempotent
            st_.caller_finalized = True
            expect_final.add(r.datas.index(st_.entry))
            # the iterator must not be used afterwards by a well-behaved caller: close it
            st_.it.close()
            st_.closed = True
        for st_ in its:
            if st_.closed and st_.owned:
                expect_final.add(r.datas.index(st_.entry))
        invariants(o)
    # end of history: close everything, everything owned must be finalized exactly once
    for st_ in its:
        st_.it.close()
        if st_.owned:
            expect_final.add(r.datas.index(st_.entry))
        elif not st_.caller_finalized:
            if st_.entry[1] != 0:
                fail("caller-owned render data finalized by close()", {"kind": "caller_owned"})
            st_.entry[0].finalize()
            st_.caller_finalized = True
            expect_final.add(r.datas.index(st_.entry))
    invariants({"op": "end"})
    rec.label(f"kind:{kind}", *sorted(f.split(":")[0] for f in flags))
    if flags:
        rec.nontriv([kind, kinds, sorted(flags)])


# ---------------------------------------------------------------------------------------------- class families

@st.composite
def family_cases(draw):
    return {"ops": draw(st.lists(st.tuples(st.integers(0, 3), st.sampled_from(["render", "str", "draw", "iterate", "iter_close"])),
                                 min_size=1, max_size=7)),
            "handling": draw(st.integers(0, 2)) == 0}


def check_families(case, rec):
    if case.get("handling"):
        rec.label("while_handling_an_exception")
        try:
            raise LookupError("an unrelated error the caller is handling")
        except LookupError:
            return _check_families(case, rec)
    return _check_families(case, rec)


def _check_families(case, rec):
    """A fresh family of render classes per case -- Parent (no finalizer of its own), Child(Parent) defining one,
    GrandChild(Child) inheriting it, Sibling(Parent) without -- is used in a generated order through the public entry
    points.  Every render data object is finalized exactly once when its operation is over, and the finalizer its class
    defines or inherits has run exactly once on it, whichever other class of the family was used before."""
    import io

    from term_image.geometry import Size
    from term_image.render import RenderIterator
    from term_image.renderable import Frame, Renderable

    env.reset()
    env.apply(cols=20, rows=10)
    datas = []  # [class index, data]
    ran = []  # (finalizer owner, id(data))

    class Parent(Renderable):
        idx = 0

        def __init__(self, n=1):
            super().__init__(n, 40 if n > 1 else 1)

        def _get_render_size_(self):
            return Size(2, 1)

        def _get_render_data_(self, *, iteration):
            d = super()._get_render_data_(iteration=iteration)
            datas.append([type(self).idx, d])
            return d

        def _render_(self, render_data, render_args):
            d = render_data[Renderable]
            return Frame(d.frame_offset, d.duration if self.animated else 0, d.size, "ab")

    class Child(Parent):
        idx = 1

        @classmethod
        def _finalize_render_data_(cls, render_data):
            ran.append(id(render_data))
            super()._finalize_render_data_(render_data)

    class GrandChild(Child):
        idx = 2

    class Sibling(Parent):
        idx = 3

    classes = [Parent, Child, GrandChild, Sibling]
    order = []
    for ci, api in case["ops"]:
        cls = classes[ci]
        order.append((cls.__name__, api))
        n0 = len(datas)
        try:
            if api == "render":
                cls().render()
            elif api == "str":
                str(cls())
            elif api == "draw":
                real, sys.stdout = sys.stdout, io.StringIO()
                try:
                    cls().draw()
                finally:
                    sys.stdout = real
            elif api == "iterate":
                for _ in RenderIterator(cls(3), loops=1):
                    pass
            else:
                it = RenderIterator(cls(3), loops=2)
                next(it)
                it.close()
        except Exception as e:
            raise Violation(f"{cls.__name__}: {api} raised {type(e).__name__}: {e} (order {order})", {"kind": "exception"})
        for ci2, d in datas[n0:]:
            if not d.finalized:
                raise Violation(f"render data of a {classes[ci2].__name__} {api} is not finalized afterwards (order {order})",
                                {"kind": "not_finalized", "api": api})
            want = 1 if ci2 in (1, 2) else 0
            if ran.count(id(d)) != want:
                raise Violation(f"the render-data finalizer {classes[ci2].__name__} "
                                f"{'defines' if ci2 == 1 else 'inherits' if ci2 == 2 else 'does not have'} ran {ran.count(id(d))}x on the "
                                f"data of its {api} (expected {want}) after using the classes in the order {order}",
                                {"kind": "finalizer_runs", "api": api, "cls": ci2})
    first_plain = next((i for i, (ci, _) in enumerate(case["ops"]) if ci in (0, 3)), None)
    first_fin = next((i for i, (ci, _) in enumerate(case["ops"]) if ci in (1, 2)), None)
    if first_plain is not None and first_fin is not None:
        rec.label("plain_before_finalizing" if first_plain < first_fin else "finalizing_before_plain")
        rec.nontriv(order)


CLAUSES = [
    Clause("history", check_history, cases, budget={"quick": 2000, "thorough": 50000},
           floors={"fault": 0.12, "abandoned": 0.03, "caller_owned": 0.02}),
    Clause("families", check_families, family_cases, budget={"quick": 400, "thorough": 4000},
           floors={"plain_before_finalizing": 0.15}),
]
