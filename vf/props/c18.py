"""C18 — the urwid image screen never leaves a ghost image behind.

A case is a *history*: a terminal identity, a screen size, a pool of image widgets
(kitty / iterm2 / block), an initial layout and a list of steps.  Every step applies a few
operations (layout edits, pool edits, screen operations) and then redraws:

    canvas = top.render((cols, rows), focus=True);  screen.draw_screen((cols, rows), canvas)

Everything the long-lived `UrwidImageScreen` writes is fed, chunk by chunk, into ONE long-lived
terminal model (`vf.vt.Screen`).  After each redraw the very same canvas object is drawn from
scratch by a fresh screen into a fresh model; the per-cell graphics maps and the text cells of
the two models must be equal (no ghost, nothing missing).  Further per-redraw obligations: no
exception escapes `draw_screen`; the output is exactly one `CSI ? 2026 h ... CSI ? 2026 l`
bracket with no screen-changing byte outside it; the model's parser is back in ground state
and saw no cut / malformed control sequence (an image line whose terminator is split by urwid's
bottom-row insertion is an image that is not on the terminal).  After `start()`, `stop()`, `clear()` the model holds no graphics placement at all (foreign
images left by "another program" are seeded into the model before `start()`).  At every step
all live kitty widgets hold pairwise distinct z-indexes in [-(2**31 - 1), 2**31 - 1].

"other" identities: kitty widgets can only exist on a terminal that is neither kitty nor konsole
when `KittyImage.forced_support` is enabled, i.e. the user declared the terminal kitty-capable;
then the screen takes the same code path as on kitty and the full property is demanded.  With
forced support off (flag `force: false`, wezterm / unknown terminal) kitty specs degrade to
iterm2 widgets, nothing is tracked by the screen, and the text/graphics equality still has to
hold because iterm2 images outside konsole are ordinary cell content.

Violation signatures carry a diagnosis (never used by the oracle): `same_canvas` (the redraw got
the previous canvas object), `explicit_clear` (the history called clear_images()), `prev_composite`,
`disguise_unchanged` / `disguise_bumped` (a widget's placements were deleted since the last
completed redraw while its hidden per-line "disguise" text ended up identical, and whether the
library did call the disguise-changing methods in between; the calls are counted by thin wrappers).

Out of domain (skipped, counted as `render_errors` / `degenerate_views`): layouts that urwid or the
image widget cannot render at the given size, and composite canvases containing zero-width or
zero-height views (`UrwidImageCanvas.content()` treats `cols=0` as "no trim", a canvas matter).
"""

from __future__ import annotations

import functools
import gc
import os
import weakref

from hypothesis import strategies as st

from .. import gen
from ..core import Clause, HarnessError, Violation, canon
from ..ref import urwidscreen as RU

META = {
    "thorough_scale": 4,
    "level": "exploration",
    "rule": (
        "Hypothesis-generated histories (1-25 steps of 1-3 operations + redraw) over layouts built from "
        "Pile/Columns/Overlay/ListBox/Filler/Padding/LineBox/AttrMap/Text/SolidFill/Divider holding a pool of 0-5 "
        "kitty/iterm2/block UrwidImage widgets (LINES method, small still images incl. uniform ones, upscale on/off, "
        "alignments); operations: replace layout, swap/insert/remove/resize children, scroll a ListBox, cover/move/"
        "uncover an Overlay, re-target an image leaf, create/drop widgets with gc.collect(), screen.clear(), stop()+"
        "start() (with a foreign image seeded in between), clear_images()/clear_images(*widgets), a draw_screen() with "
        "a wrong size (ValueError expected, bracket must still close); identities kitty 0.26.5, kitty 0.20.0, konsole "
        "22.04.0, wezterm and unknown (forced support on/off). Oracle: long-lived screen+terminal model vs. fresh "
        "screen+fresh model drawing the same canvas object: graphics_map() and text cells equal; sync bracket exact; "
        "no exception; no cut/malformed control sequence; no placement after start/stop/clear (start()/stop() of an "
        "already started/stopped screen write nothing); live z-indexes distinct and in range; the allocator is "
        "checked against a model of its documented sequence incl. exhaustion. Non-trivial = history with a redraw in "
        "which one graphics placement set changed (moved/resized/vanished) while another stayed; distinct by (op-kind "
        "sequence, style mix, identity)."
    ),
    "assumptions": [
        "terminal semantics as in vf/vt.py: kitty placements persist under/over text until deleted (a=d,d=A|C|Z); "
        "on konsole iTerm2 images are persistent placements removable only by kitty delete commands and a placement "
        "at the same cell and z-index replaces the previous one; elsewhere iTerm2 images are cell content",
        "mode 1049 (alternate screen) is not modelled: placements are not dropped by the buffer switch, which only makes "
        "the start/stop obligations stricter",
        "clear_images(now=True) is not exercised (it writes to the active terminal, absent in the stub environment); "
        "terminal resize and start(alternate_buffer=False) are not exercised",
        "KittyImage.forced_support enabled on a non-kitty terminal means the user vouches for kitty graphics support, "
        "so the full property is demanded there",
        "a fresh screen's start()/stop() bumps the class-wide canvas disguise counter; the harness restores the "
        "counter so that the reference drawing does not perturb the screen under test",
        "the top widget persists between redraws while the layout is unedited (as with urwid.MainLoop), so an unchanged "
        "redraw hands the cached canvas object to draw_screen(); container widgets are rebuilt after every edit",
        "clear_images(*widgets) is called with distinct widgets; ListBox scrolling is done with set_focus() + "
        "set_focus_valign(); layouts with zero-width/zero-height canvas views are out of domain",
        "any control sequence the terminal model reports as cut/garbled/unknown inside a redraw counts as a defect of "
        "the output (every sequence urwid's raw display emits is known to the model)",
    ],
}

env = I = W = urwid = VT = UrwidImageError = None
PTY = {}
BUMPS = {}
BEGIN, END = "\x1b[?2026h", "\x1b[?2026l"
IDENTS = [["kitty", "0.26.5"], ["kitty", "0.20.0"], ["konsole", "22.04.0"],
          ["wezterm", "20230712-072601-f4abf8fd"], ["", ""]]
PALETTE = [("hl", "light red", "dark blue"), ("hl2", "black", "light gray")]
_PRIOR = []  # weakrefs of kitty widgets of earlier cases (retired at the start of the next case)


def setup():
    global env, I, W, urwid, VT, UrwidImageError
    from .. import env as _env

    _env.install()
    import urwid as _urwid

    import term_image.image as _I
    import term_image.widget as _W

    from .. import vt as _VT

    from term_image.exceptions import UrwidImageError as _E

    env, I, W, urwid, VT, UrwidImageError = _env, _I, _W, _urwid, _VT, _E
    global SubImage
    SubImage = type("SubImage", (_W.UrwidImage,), {})
    # clear_images(now=True) writes straight to the active terminal (utils.write_tty), which does not exist in the
    # stub environment: route it to the output of the screen under test - one terminal, one byte stream
    import term_image.widget._urwid as _WU

    def write_tty(data):
        if TTY_SINK[0] is None:
            raise HarnessError("write_tty() outside a history")
        TTY_SINK[0].write(data.decode())

    _WU.write_tty = write_tty
    _urwid.set_encoding("utf-8")
    # diagnosis only: count the calls that change the hidden per-line "disguise" text (the originals still run)
    orig_w = _W.UrwidImage._ti_change_disguise
    orig_c = _W.UrwidImageCanvas._ti_change_disguise.__func__

    def w_bump(self):
        BUMPS[id(self)] = BUMPS.get(id(self), 0) + 1
        return orig_w(self)

    def c_bump(cls):
        BUMPS["canvas"] = BUMPS.get("canvas", 0) + 1
        return orig_c(cls)

    _W.UrwidImage._ti_change_disguise = w_bump
    _W.UrwidImageCanvas._ti_change_disguise = classmethod(c_bump)


def pty_input():
    """The slave end of a real pty (one per process) used as the screen's input file, so that
    urwid's start()/stop() run their real termios code."""
    if "in" not in PTY:
        import pty

        m, s = pty.openpty()
        PTY["master"] = m
        PTY["in"] = os.fdopen(s, "r")
    return PTY["in"]


def collect_and_freeze():
    """Full collection of what earlier cases left behind, then everything that survives (Hypothesis' and the
    framework's own long-lived objects) is moved to the permanent generation so that the gc.collect() calls
    inside a history only have to look at objects created by that history."""
    gc.collect()
    gc.freeze()


def retire_prior():
    """Kitty widgets of earlier cases that are still referenced from somewhere (e.g. from the traceback
    of a reported violation) must not hand their z-index back to the allocator during this case."""
    for r in _PRIOR:
        w = r()
        if w is not None and hasattr(w, "_ti_z_index"):
            del w._ti_z_index
    _PRIOR.clear()


TTY_SINK = [None]  # Capture of the screen under test (see setup())


class Capture:
    """Output file of a screen: collects writes; take() returns what was written since."""

    def __init__(self):
        self.buf = []
        self.flushes = 0

    def write(self, data):
        if not isinstance(data, str):
            raise TypeError(f"screen wrote {type(data).__name__}")
        self.buf.append(data)
        return len(data)

    fail_flush = False  # the next flush() raises EAGAIN (what was written so far has reached the terminal)

    def flush(self):
        self.flushes += 1
        if self.fail_flush:
            self.fail_flush = False
            raise BlockingIOError(11, "Resource temporarily unavailable")

    def take(self):
        d = "".join(self.buf)
        self.buf = []
        return d


# ============================================================================================ generation

TEXTS = st.text(alphabet="abxy \n", min_size=0, max_size=7)  # "\\n": one text canvas spanning several rows
VALIGN = st.sampled_from(["top", "middle", "bottom"])
HALIGN = st.sampled_from(["left", "center", "right"])
REL = st.sampled_from([0, 25, 50, 75, 100])
LB_VALIGN = st.one_of(VALIGN, REL.map(lambda p: ["relative", p]))

# NOTE: Hypothesis flattens nested one_of() (also through .map()), which would make the deepest alternatives
# dominate; every choice point below therefore draws a *kind* first (sampled_from) inside a composite.


def _sz_box():
    return st.tuples(st.sampled_from(["weight", "weight", "given"]), st.integers(1, 6)).map(
        lambda t: [t[0], t[1] if t[0] == "given" else 1 + t[1] % 3])


def img_leaf():
    return st.integers(0, 4).map(lambda w: {"t": "img", "w": w})


@st.composite
def _flow(draw, depth):
    kinds = ["img", "img", "img", "text", "divider"]
    if depth > 0:
        kinds += ["img", "pile", "cols", "deco"]
    k = draw(st.sampled_from(kinds))
    if k == "img":
        return draw(img_leaf())
    if k == "text":
        return {"t": "text", "s": draw(TEXTS)}
    if k == "divider":
        return {"t": "divider", "c": "-"}
    sub = flow_spec(depth - 1)
    if k == "pile":
        return {"t": "pile", "k": "flow", "items": [[["pack"], c] for c in draw(st.lists(sub, min_size=1, max_size=3))]}
    if k == "cols":
        return {"t": "cols", "k": "flow", "div": draw(st.integers(0, 1)),
                "items": draw(st.lists(st.tuples(_sz_box(), sub).map(list), min_size=1, max_size=3))}
    return draw(_deco(sub))


@st.composite
def _deco(draw, sub):
    k = draw(st.sampled_from(["linebox", "padding", "attr"]))
    node = {"t": k, "child": draw(sub)}
    if k == "padding":
        node.update(left=draw(st.integers(0, 2)), right=draw(st.integers(0, 2)))
    return node


@functools.lru_cache(maxsize=None)
def flow_spec(depth):
    return _flow(depth)


@functools.lru_cache(maxsize=None)
def overlay_params():
    dim = st.tuples(st.booleans(), st.integers(1, 10), REL).map(lambda t: t[1] if t[0] else ["relative", max(t[2], 25)])
    pos_h = st.tuples(st.booleans(), HALIGN, REL).map(lambda t: t[1] if t[0] else ["relative", t[2]])
    pos_v = st.tuples(st.booleans(), VALIGN, REL).map(lambda t: t[1] if t[0] else ["relative", t[2]])
    return st.fixed_dictionaries({"align": pos_h, "width": dim, "valign": pos_v, "height": dim})


@st.composite
def _box(draw, depth, composite_root):
    kinds = ["filler"]
    if not composite_root:
        kinds += ["img", "img", "img", "solid"]
    if depth > 0:
        kinds += ["pile", "pile", "pile", "cols", "cols", "grid", "grid", "overlay", "overlay", "listbox", "listbox", "deco"]
    k = draw(st.sampled_from(kinds))
    if k == "img":
        return draw(img_leaf())
    if k == "solid":
        return {"t": "solid", "c": draw(st.sampled_from(["x", ".", " "]))}
    if k == "filler":
        return {"t": "filler", "child": draw(flow_spec(max(depth - 1, 0))), "valign": draw(VALIGN)}
    sub = box_spec(depth - 1)
    if k == "pile":
        subf = flow_spec(depth - 1)
        items = []
        for _ in range(draw(st.integers(0, 3))):
            if draw(st.integers(0, 2)) == 0:
                items.append([["pack"], draw(subf)])
            else:
                items.append([draw(_sz_box()), draw(sub)])
        items.insert(draw(st.integers(0, len(items))), [["weight", draw(st.integers(1, 3))], draw(sub)])
        return {"t": "pile", "k": "box", "items": items}
    if k == "cols":
        return {"t": "cols", "k": "box", "div": draw(st.integers(0, 1)),
                "items": draw(st.lists(st.tuples(_sz_box(), sub).map(list), min_size=1, max_size=3))}
    if k == "grid":  # columns of piles / single cells (image grids): cviews that start in later shards
        cell = st.sampled_from(["img", "img", "img", "solid", "filler"])
        cols = []
        for _ in range(draw(st.integers(2, 3))):
            cells = []
            for _ in range(draw(st.integers(1, 3))):
                ck = draw(cell)
                leaf = draw(img_leaf()) if ck == "img" else {"t": "solid", "c": draw(st.sampled_from(["x", "."]))}
                if ck == "filler":
                    leaf = {"t": "filler", "child": draw(img_leaf()), "valign": draw(VALIGN)}
                cells.append([["weight", 1] if not cells else draw(_sz_box()), leaf])
            col = cells[0][1] if len(cells) == 1 else {"t": "pile", "k": "box", "items": cells}
            cols.append([draw(_sz_box()), col])
        return {"t": "cols", "k": "box", "div": draw(st.integers(0, 1)), "items": cols}
    if k == "overlay":
        return dict(draw(overlay_params()), t="overlay", top=draw(sub), bottom=draw(sub))
    if k == "listbox":
        items = draw(st.lists(flow_spec(depth - 1), min_size=1, max_size=5))
        return {"t": "listbox", "items": [[["pack"], c] for c in items], "focus": draw(st.integers(0, 4)),
                "valign": draw(LB_VALIGN)}
    return draw(_deco(sub))


@functools.lru_cache(maxsize=None)
def box_spec(depth, composite_root=False):
    return _box(depth, composite_root)


def widget_spec(styles=("kitty", "kitty", "kitty", "iterm2", "iterm2", "block")):
    return st.fixed_dictionaries({
        "style": st.sampled_from(list(styles)),
        "img": gen.still_image(max_w=6, max_h=6, modes=["RGB", "RGBA", "L", "P"]),
        "upscale": st.booleans(),
        "sub": st.sampled_from([False, False, True]),  # instance of an application subclass of UrwidImage
        "fmt": st.sampled_from(["", "", "<", ">", ".^", "._", "<.^", ">._"]),
        # style-specific part of the format spec (graphics styles only; LINES is needed for trimming)
        # "z<N>": a z-index in a widget's specifier is documented to be ignored (each widget gets its own)
        "sfmt": st.sampled_from(["", "", "+L", "+L", "+Lc1", "+Lm1", "+Lz5", "+z77777"]),
    })


OP_WEIGHTS = {"set": 2, "swap": 4, "insert": 3, "remove": 3, "resize": 4, "scroll": 3, "cover": 3, "move_cover": 2,
              "uncover": 2, "retarget": 2, "noop": 1, "new_widget": 2, "drop_widget": 2, "gc": 1, "clear": 1,
              "restart": 1, "bad_draw": 1, "failed_draw": 4}


@st.composite
def _op(draw, any_top, explicit_clear, lifecycle):
    weights = dict(OP_WEIGHTS)
    if explicit_clear:
        weights.update(clear_images=8, noop=4)
    if lifecycle:
        weights.update(clear=6, restart=6, stop=4, start=4, foreign=4)
    kinds = [k for k, n in weights.items() for _ in range(n)]
    k = draw(st.sampled_from(kinds))
    idx = st.integers(0, 7)
    op = {"op": k}
    if k == "set":
        bare = any_top and draw(st.integers(0, 2)) == 0
        if bare:
            op["layout"] = draw(img_leaf()) if draw(st.booleans()) else {"t": "solid", "c": draw(st.sampled_from(["x", " "]))}
        else:
            op["layout"] = draw(box_spec(draw(st.integers(2, 3)), True))
    elif k == "swap":
        op.update(c=draw(idx), a=draw(idx), b=draw(idx))
    elif k == "insert":
        op.update(c=draw(idx), at=draw(idx), item={"sz": draw(_sz_box()), "pack": draw(st.booleans()),
                                                   "box": draw(box_spec(1)), "flow": draw(flow_spec(1))})
    elif k == "remove":
        op.update(c=draw(idx), at=draw(idx))
    elif k == "resize":
        op.update(c=draw(idx), at=draw(idx), sz=draw(_sz_box()))
    elif k == "scroll":
        op.update(c=draw(idx), focus=draw(idx), valign=draw(LB_VALIGN))
    elif k == "cover":
        op.update(ov=draw(overlay_params()), top=draw(box_spec(draw(st.integers(0, 1)))))
    elif k == "move_cover":
        op.update(c=draw(idx), ov=draw(overlay_params()))
    elif k == "retarget":
        op.update(leaf=draw(idx), w=draw(idx))
    elif k == "new_widget":
        op["spec"] = draw(widget_spec())
    elif k == "drop_widget":
        op["w"] = draw(idx)
    elif k == "restart":
        op["foreign"] = draw(st.booleans())
    elif k == "clear_images":
        op["ws"] = draw(st.lists(idx, min_size=0, max_size=3))
        op["now"] = draw(st.sampled_from([False, False, True]))
    return op


@functools.lru_cache(maxsize=None)
def op_strategy(any_top, explicit_clear, lifecycle=False):
    return _op(any_top, explicit_clear, lifecycle)


@st.composite
def histories(draw, any_top=False, explicit_clear=False, lifecycle=False):
    ident = draw(st.sampled_from(IDENTS + IDENTS[:3]))
    force = True if ident[0] in ("kitty", "konsole") else draw(st.sampled_from([True, True, False]))
    cols, rows = draw(st.integers(6, 24)), draw(st.integers(4, 12))
    pool = draw(st.lists(widget_spec(), min_size=0 if any_top else 1, max_size=4))
    long = draw(st.integers(0, 3)) == 0
    op = op_strategy(any_top, explicit_clear, lifecycle)
    steps = draw(st.lists(st.lists(op, min_size=1, max_size=3), min_size=1, max_size=25 if long else 12))
    first = draw(box_spec(2, True)) if not (any_top and draw(st.integers(0, 3)) == 0) else draw(img_leaf())
    if draw(st.integers(0, 3)) == 0:
        # directed family "panes": a column of short rows beside a multi-row widget at the right edge, and below
        # them an image in a fixed-width column that starts at the same column; the first steps move that column
        # horizontally only (pane separator dragged) - canvases that continue from an earlier shard on the right
        a, iw = draw(st.integers(2, 6)), draw(st.integers(2, 4))
        rows_left = [[["pack"], {"t": "text", "s": draw(TEXTS)}] for _ in range(draw(st.integers(3, 6)))]
        left = ({"t": "listbox", "items": rows_left, "focus": 0, "valign": "top"} if draw(st.booleans())
                else {"t": "filler", "valign": "top", "child": {"t": "pile", "k": "flow", "items": rows_left}})
        title = {"t": "text", "s": "\n".join(draw(st.lists(TEXTS, min_size=2, max_size=4)))}  # ONE canvas spanning several rows
        pool = [draw(widget_spec(("kitty", "kitty", "iterm2")))] + pool[:3]  # widget 0: a style with deletable placements
        inner = {"t": "cols", "k": "box", "div": 0, "items": [[["given", iw], {"t": "img", "w": 0}], [["weight", 1], {"t": "solid", "c": "."}]]}
        right = {"t": "pile", "k": "box", "items": [[["pack"], title], [["weight", 1], inner]]}
        first = {"t": "cols", "k": "box", "div": 0, "items": [[["given", a], left], [["weight", 1], right]]}
        cols, rows = max(cols, a + iw + 8), max(rows, 6)
        # the root columns are container 0 in walk order: item 0 is the left pane
        moves = [[{"op": "resize", "c": 0, "at": 0, "sz": ["given", draw(st.integers(1, 9))]}] for _ in range(draw(st.integers(2, 4)))]
        steps = moves + steps
    return {
        "ident": ident, "force": force, "cell": draw(st.sampled_from([[1, 2], [1, 2], [2, 4], [3, 5], [9, 18]])),
        "size": [cols, rows], "pool": pool, "layout": first, "steps": steps,
        "foreign_first": draw(st.booleans()) if lifecycle else False, "any_top": any_top,
    }


# ============================================================================================ execution

SubImage = None  # an application subclass of UrwidImage (created in setup()); the z-index space is per terminal, not per class


def _reset_z(preset=1):
    for k in ("_ti_next_z_index", "_ti_free_z_indexes"):
        if k in vars(SubImage):
            delattr(SubImage, k)
    W.UrwidImage._ti_free_z_indexes.clear()
    W.UrwidImage._ti_next_z_index = preset


def make_widget(spec, force):
    style = spec["style"]
    if style == "kitty" and not (force or I.KittyImage.is_supported()):
        style = "iterm2"
    cls = {"kitty": I.KittyImage, "iterm2": I.ITerm2Image, "block": I.BlockImage}[style]
    image = cls(gen.build_image(spec["img"]))
    sfmt = spec.get("sfmt", "")
    if style == "iterm2" and "z" in sfmt:
        sfmt = "+L"  # no z-index field in the iterm2 style
    fmt = spec["fmt"] + (sfmt if style != "block" else "")
    wcls = SubImage if spec.get("sub") else W.UrwidImage
    return wcls(image, fmt, upscale=spec["upscale"]), style


def build(node, ctx, pool):
    t = node["t"]
    if t == "img":
        if not pool:
            return urwid.SolidFill("~") if ctx == "box" else urwid.Text("~")
        return pool[node["w"] % len(pool)]
    if t == "text":
        return urwid.Text(node["s"])
    if t == "solid":
        return urwid.SolidFill(node["c"])
    if t == "divider":
        return urwid.Divider(node["c"])
    if t == "filler":
        return urwid.Filler(build(node["child"], "flow", pool), valign=node["valign"])
    if t in ("pile", "cols"):
        items = []
        for sz, ch in node["items"]:
            w = build(ch, RU.child_ctx(node, sz), pool)
            if sz[0] == "pack":
                items.append(("pack", w))
            elif sz[0] == "weight":
                items.append(("weight", sz[1], w))
            else:
                items.append((sz[1], w))
        if t == "pile":
            return urwid.Pile(items)
        return urwid.Columns(items, dividechars=node.get("div", 0))
    if t == "listbox":
        ws = [build(ch, "flow", pool) for _, ch in node["items"]]
        lb = urwid.ListBox(urwid.SimpleFocusListWalker(ws))
        lb.set_focus(node["focus"] % len(ws))
        v = node["valign"]
        lb.set_focus_valign(tuple(v) if isinstance(v, list) else v)
        return lb
    if t == "overlay":
        def dim(v):
            return tuple(v) if isinstance(v, list) else v

        return urwid.Overlay(build(node["top"], "box", pool), build(node["bottom"], "box", pool),
                             dim(node["align"]), dim(node["width"]), dim(node["valign"]), dim(node["height"]))
    if t == "linebox":
        return urwid.LineBox(build(node["child"], ctx, pool))
    if t == "padding":
        return urwid.Padding(build(node["child"], ctx, pool), left=node["left"], right=node["right"])
    if t == "attr":
        return urwid.AttrMap(build(node["child"], ctx, pool), "hl")
    raise HarnessError(f"unknown node {t}")


def norm_cell(c):
    ch, fg, bg, attrs, img = c
    if img is not None:
        ref, dx, dy = img
        img = (ref[2], dx, dy)
    return (ch, fg, bg, tuple(sorted(attrs)), img)


def placement_keys(vt):
    return {(p.proto, p.z, p.digest, p.x, p.y, p.c, p.r) for p in vt.placements}


# model anomalies that mean a control sequence of the output was cut or garbled (an image or part of the
# screen is then not what the canvas says)
# (every sequence urwid's draw_screen() can emit is known to the model, so an unknown CSI/ESC inside a redraw
# is a cut one, e.g. "CSI 1 x" made of the head of "CSI 1 C" and the next text character)
CORRUPT = {"aborted", "cancelled", "c0_in_csi", "bad_csi_char", "bad_params", "bad_sgr", "unknown_string", "unknown_esc",
           "unknown_csi", "unknown_mode",
           "kitty_bad_control", "kitty_bad_base64", "kitty_bad_zlib", "kitty_size_mismatch", "kitty_missing_size",
           "kitty_chunk_extra_keys", "kitty_no_cell_footprint", "kitty_unknown_action", "kitty_unknown_delete",
           "kitty_bad_int", "iterm2_bad_base64", "iterm2_no_payload", "iterm2_size_mismatch", "iterm2_non_cell_size",
           "sync_end_without_begin"}
FOREIGN = "\x1b[2;2H\x1b_Ga=T,f=24,s=1,v=1,c=2,r=2,z=7,C=1;AAAA\x1b\\\x1b[H"


class Lab:
    """One history in progress."""

    def __init__(self, case, rec):
        self.case, self.rec = case, rec
        self.cols, self.rows = case["size"]
        self.size = (self.cols, self.rows)
        self.force = case["force"]
        env.reset()
        urwid.CanvasCache.clear()
        collect_and_freeze()
        retire_prior()
        # class-level state of the code under test back to its import-time value
        _reset_z()
        W.UrwidImageCanvas._ti_disguise_state = 0
        BUMPS.clear()
        name, version = case["ident"]
        env.apply(name=name, version=version, cell=case["cell"], cols=self.cols, rows=self.rows)
        I.KittyImage.forced_support = bool(self.force)
        self.profile = env.model_profile()
        self.pool, self.styles = [], []
        self.kitty_refs = []
        self.layout = case["layout"]
        self.out = Capture()
        TTY_SINK[0] = self.out
        self.screen = self.new_screen(self.out)
        self.vt = VT.Screen(self.cols, self.rows, profile=self.profile, strict=False)
        self.vt.track_sync = True
        self.started = False
        self.trace = []
        self.kinds = []
        self.prev_keys = None
        self.flags = set()
        self.redraws = 0
        self.last_canvas = None
        self.diag = {}
        self.dis_mark = self.gl_mark = None
        self.top = self.top_key = None
        self.only_images = False

    # ---------------------------------------------------------------------------------- helpers
    def new_screen(self, out):
        s = W.UrwidImageScreen(pty_input(), out)
        s.register_palette(PALETTE)
        return s

    def fail(self, msg, sig):
        sig = dict(sig, profile=self.profile)
        raise Violation(f"{msg}\n  identity={self.case['ident']} force={self.force} size={self.size} "
                        f"trace={self.trace[-10:]}", sig)

    def pump(self):
        data = self.out.take()
        self.vt.feed(data)
        return data

    def add_widget(self, spec):
        w, style = make_widget(spec, self.force)
        self.pool.append(w)
        self.styles.append(style)
        if style == "kitty":
            r = weakref.ref(w)
            self.kitty_refs.append(r)
            _PRIOR.append(r)
        return w

    def check_z(self):
        seen = {}
        for r in self.kitty_refs:
            w = r()
            if w is None:
                continue
            z = w._ti_z_index
            if not isinstance(z, int) or not RU.Z_MIN <= z <= RU.Z_MAX:
                self.fail(f"live kitty widget holds z-index {z!r} outside [-(2**31 - 1), 2**31 - 1]", {"kind": "z_range"})
            if z in seen:
                self.fail(f"two live kitty widgets share z-index {z}", {"kind": "z_duplicate"})
            seen[z] = w
            if w._ti_style_args.get("z_index") != z:
                self.fail(f"widget renders with z_index {w._ti_style_args.get('z_index')} but holds {z}", {"kind": "z_args"})
        self.kitty_refs = [r for r in self.kitty_refs if r() is not None]

    def no_placements(self, after):
        if self.vt.placements:
            p = self.vt.placements[0]
            self.fail(f"after {after} the terminal still shows {len(self.vt.placements)} graphics placement(s), e.g. "
                      f"{p.proto} z={p.z} at {(p.x, p.y)} {p.c}x{p.r}", {"kind": "not_cleared", "after": after})
        if not self.vt.in_ground():
            self.fail(f"after {after} the terminal parser is left in state {self.vt.parser_state()}", {"kind": "parser", "after": after})

    # ---------------------------------------------------------------------------------- screen ops
    def start(self, what="start()"):
        was_started = self.started
        try:
            self.screen.start()
        except Exception as e:
            self.fail(f"{what} raised {type(e).__name__}: {e}", {"kind": "exception", "where": "start", "exc": type(e).__name__})
        self.started = True
        data = self.pump()
        if was_started:
            if data:  # start() of a started screen is documented to do nothing
                self.fail(f"start() of a started screen wrote {data[:40]!r}", {"kind": "start_twice"})
            return
        self.no_placements(what)
        self.allow_missing = self.cleared_explicitly = self.only_images = False  # full repaint follows

    def stop(self, what="stop()"):
        was_started = self.started
        try:
            self.screen.stop()
        except Exception as e:
            self.fail(f"{what} raised {type(e).__name__}: {e}", {"kind": "exception", "where": "stop", "exc": type(e).__name__})
        self.started = False
        data = self.pump()
        if not was_started:
            if data:  # stop() of a stopped screen does nothing
                self.fail(f"stop() of a stopped screen wrote {data[:40]!r}", {"kind": "stop_twice"})
            return
        self.no_placements(what)
        if self.vt.sync_depth:
            self.fail("stop() leaves a synchronized update open", {"kind": "sync", "where": "stop"})

    def foreign(self):
        """Another program leaves an image on the terminal while our screen is not running."""
        if not self.started and (self.force or I.KittyImage.is_supported()):
            # only where the library is told / knows that the terminal implements the kitty protocol
            self.vt.feed(FOREIGN)
            self.flags.add("foreign")

    def apply(self, op):
        k = op["op"]
        self.kinds.append(k)
        if k in ("set", "swap", "insert", "remove", "resize", "scroll", "cover", "move_cover", "uncover", "retarget"):
            new, done = RU.edit(self.layout, op)
            if done and not self.case.get("any_top") and new["t"] in ("img", "solid"):
                done = False  # clause without bare top-level widgets: keep the composite layout
            else:
                self.layout = new
            self.trace.append(k if done else k + "-")
        elif k == "noop":
            self.trace.append(k)
        elif k == "new_widget":
            if len(self.pool) < 5:
                self.add_widget(op["spec"])
                self.trace.append(f"new_widget:{self.styles[-1]}")
        elif k == "drop_widget":
            if self.pool:
                i = op["w"] % len(self.pool)
                self.layout = RU.drop_widget(self.layout, i, len(self.pool))
                self.trace.append(f"drop_widget:{i}:{self.styles[i]}")
                del self.pool[i], self.styles[i]
                gc.collect()
        elif k == "gc":
            gc.collect()
            self.trace.append(k)
        elif k == "clear":
            if self.started:
                self.trace.append(k)
                try:
                    self.screen.clear()
                except Exception as e:
                    self.fail(f"clear() raised {type(e).__name__}: {e}", {"kind": "exception", "where": "clear", "exc": type(e).__name__})
                self.pump()
                self.no_placements("clear()")
                self.allow_missing = self.cleared_explicitly = self.only_images = False  # full repaint follows
        elif k == "restart":
            self.trace.append(k)
            if self.started:
                self.stop()
            if op.get("foreign"):
                self.foreign()
            self.start()
        elif k == "stop":
            self.trace.append(k)
            self.stop()  # stop() on a stopped screen is a documented no-op
        elif k == "start":
            self.trace.append(k)
            self.start()
        elif k == "foreign":
            self.foreign()
        elif k == "clear_images":
            idxs = sorted({i % len(self.pool) for i in op["ws"]}) if self.pool else []  # distinct widgets
            ws = [self.pool[i] for i in idxs]
            now = bool(op.get("now"))
            self.trace.append(f"clear_images:{[self.styles[i] for i in idxs]}" + (":now" if now else ""))
            try:
                self.screen.clear_images(*ws, now=now)
                if now:
                    self.flags.add("clear_now")
                    if self.started and self.out.buf == [] and (self.force or I.KittyImage.is_supported()) \
                            and (not ws or any(isinstance(w._ti_image, I.KittyImage) for w in ws)):
                        self.fail("clear_images(now=True) wrote nothing to the terminal", {"kind": "clear_now_silent"})
            except Exception as e:
                self.fail(f"clear_images() raised {type(e).__name__}: {e}",
                          {"kind": "exception", "where": "clear_images", "exc": type(e).__name__})
            self.pump()
            if not ws and self.started and (self.force or I.KittyImage.is_supported()):
                # "If none is given, all images (of styles that support/require such an operation) are cleared"
                self.no_placements("clear_images(now=True)" if now else "clear_images() + flush")
            self.flags.add("explicit_clear")
            # The caller asked for the images to be removed. A following draw_screen() of the very same canvas
            # object is skipped by urwid altogether (nothing changed), so the images stay away: tolerated. As soon
            # as a new canvas is drawn, every image in it must be on the terminal again (the library changes the
            # hidden per-line text of cleared images for exactly that purpose).
            self.cleared_explicitly = True
        elif k == "bad_draw":
            self.bad_draw()
        elif k == "failed_draw":
            self.failed_draw()
        else:
            raise HarnessError(f"unknown op {k}")

    def render(self):
        try:
            # like urwid's MainLoop: the top widget persists while nothing is edited, so an unchanged
            # redraw gets the cached canvas object back
            key = (canon(self.layout), tuple(id(w) for w in self.pool))
            if key != self.top_key:
                self.top, self.top_key = None, None
                self.top, self.top_key = build(self.layout, "box", self.pool), key
            top = self.top
            canvas = top.render(self.size, focus=True)
            if canvas.rows() != self.rows or canvas.cols() != self.cols:
                raise ValueError("canvas size")
            for _ in canvas.content():  # urwid canvases that cannot produce their content (zero-width text, ...)
                pass
            for _, cviews in getattr(canvas, "shards", ()):
                for cv in cviews:
                    if cv[2] <= 0 or cv[3] <= 0:  # zero-width / zero-height view (e.g. an overlay 25% of 1 column wide)
                        self.rec.count("degenerate_views")
                        raise ValueError("degenerate view")
            return canvas
        except Exception as e:  # layouts urwid / the image widget cannot render at this size: not C18's business
            self.rec.count("render_errors")
            self.trace.append(f"render-error:{type(e).__name__}")
            return None

    def bad_draw(self):
        """draw_screen() with a size that does not match the canvas: urwid raises ValueError; the
        synchronized update must nevertheless be closed and the stream complete."""
        if not self.started:
            return
        canvas = self.render()
        if canvas is None:
            return
        self.trace.append("bad_draw")
        try:
            self.screen.draw_screen((self.cols, self.rows + 1), canvas)
        except ValueError:
            pass
        except Exception as e:
            self.pump()
            self.fail(f"draw_screen() with a wrong size raised {type(e).__name__}: {e}",
                      {"kind": "exception", "where": "bad_draw", "exc": type(e).__name__,
                       "composite": isinstance(canvas, urwid.CompositeCanvas)})
        self.pump()
        if self.vt.sync_depth:
            self.fail("draw_screen() that raised ValueError left the synchronized update open", {"kind": "sync", "where": "bad_draw"})
        if not self.vt.in_ground():
            self.fail(f"draw_screen() that raised left the parser in state {self.vt.parser_state()}", {"kind": "parser", "after": "bad_draw"})
        self.flags.add("bad_draw")
        # a draw_screen() call that the caller got wrong (ValueError) is not a redraw of the property's
        # histories; what is on the terminal afterwards is only judged for left-over images until the next
        # full repaint
        self.allow_missing = True

    def failed_draw(self):
        """A redraw whose output reaches the terminal but whose flush fails (EAGAIN on a non-blocking terminal: urwid only
        swallows EINTR).  The program carries on and redraws; until the next full repaint urwid itself may leave rows of the
        failed frame in place (its own screen buffer is not updated), so only left-over / stacked *images* are judged."""
        if not self.started:
            return
        canvas = self.render()
        if canvas is None or canvas is self.last_canvas:
            return
        self.trace.append("failed_draw")
        self.out.fail_flush = True
        try:
            self.screen.draw_screen(self.size, canvas)
        except BlockingIOError:
            self.flags.add("failed_draw")
        except Exception as e:
            self.out.fail_flush = False
            self.pump()
            self.fail(f"draw_screen() raised {type(e).__name__}: {e}", {"kind": "exception", "where": "failed_draw", "exc": type(e).__name__})
        self.out.fail_flush = False
        self.pump()
        if self.vt.sync_depth:
            self.fail("a draw_screen() whose flush failed left the synchronized update open", {"kind": "sync", "where": "failed_draw"})
        if not self.vt.in_ground():
            self.fail(f"a draw_screen() whose flush failed left the parser in state {self.vt.parser_state()}", {"kind": "parser", "after": "failed_draw"})
        self.allow_missing = self.only_images = True
        self.last_canvas = canvas

    # ---------------------------------------------------------------------------------- the redraw
    def redraw(self):
        if not self.started:
            return
        canvas = self.render()
        if canvas is None:
            return
        composite = isinstance(canvas, urwid.CompositeCanvas)
        if not composite:
            if not self.case.get("any_top"):
                raise HarnessError("non-composite top-level canvas generated in a composite-only clause")
            self.flags.add("noncomposite")
        vt = self.vt
        n_log = len(vt.sync_log)
        vt.out_of_sync_bytes = 0
        n_ev = len(vt.events)
        self.redraws += 1
        same_canvas = canvas is self.last_canvas
        prev_composite = None if self.last_canvas is None else isinstance(self.last_canvas, urwid.CompositeCanvas)
        self.last_canvas = canvas
        if same_canvas:
            self.flags.add("same_canvas")
        if self.dis_mark is None:
            self.dis_mark, self.gl_mark = self.disguises(), len(vt.graphics_log)
        try:
            self.screen.draw_screen(self.size, canvas)
        except Exception as e:
            self.pump()
            self.fail(f"draw_screen() raised {type(e).__name__}: {e} (top-level canvas {type(canvas).__name__})",
                      {"kind": "exception", "where": "draw_screen", "exc": type(e).__name__, "composite": composite})
        data = self.pump()
        # diagnosis only (goes into violation signatures): which widgets had their placements deleted in this
        # redraw without their hidden per-line "disguise" text changing (urwid then skips their unchanged rows)
        # (since the last completed redraw, i.e. including explicit clear_images() calls in between)
        dels = [g["keys"] for g in vt.graphics_log[self.gl_mark:] if g["keys"].get("a") == "d"]
        deleted_all = any(k.get("d", "a") in "aA" for k in dels)
        deleted_z = {k.get("z") for k in dels if k.get("d") in ("z", "Z")}
        before, after = self.dis_mark, self.disguises()
        stuck = [k for k, v in after.items() if before.get(k) == v and (deleted_all or str(v[1]) in deleted_z)]
        self.diag = {"same_canvas": same_canvas, "explicit_clear": "explicit_clear" in self.flags,
                     "prev_composite": prev_composite, "disguise_unchanged": bool(stuck),
                     "disguise_bumped": any(BUMPS.get("canvas", 0) + BUMPS.get(k, 0) > 0 for k in stuck)}
        if len(data) > len(BEGIN) + len(END):
            # the baseline of the next diagnosis is the last redraw that painted something (urwid skips a
            # draw_screen() of the very same canvas object)
            self.dis_mark, self.gl_mark = after, len(vt.graphics_log)
            BUMPS.clear()
        # (1) stream complete and well-formed
        if not vt.in_ground():
            self.fail(f"redraw leaves the terminal parser in state {vt.parser_state()}", {"kind": "parser", "after": "redraw"})
        self.check_corrupt(vt, n_ev, "screen under test")
        # (2) synchronized-update bracket
        if data:
            log = vt.sync_log[n_log:]
            if log != ["begin", "end"] or vt.sync_depth or not data.startswith(BEGIN) or not data.endswith(END):
                self.fail(f"redraw output is not one synchronized-update bracket: 2026 log {log}, depth {vt.sync_depth}, "
                          f"head {data[:12]!r}, tail {data[-12:]!r}", {"kind": "sync", "where": "redraw"})
            if vt.out_of_sync_bytes:
                self.fail(f"{vt.out_of_sync_bytes} screen-changing sequence(s) outside the synchronized update",
                          {"kind": "sync_outside", "where": "redraw"})
        # (3) reference: same canvas, fresh screen, fresh terminal
        saved = W.UrwidImageCanvas._ti_disguise_state
        saved_bumps = dict(BUMPS)
        out2 = Capture()
        s2 = self.new_screen(out2)
        vt2 = VT.Screen(self.cols, self.rows, profile=self.profile, strict=False)
        try:
            s2.start()
            W.UrwidImageCanvas._ti_disguise_state = saved
            vt2.feed(out2.take())
            try:
                s2.draw_screen(self.size, canvas)
            except Exception as e:
                self.fail(f"a fresh screen cannot draw the canvas: {type(e).__name__}: {e}",
                          {"kind": "exception", "where": "fresh_draw", "exc": type(e).__name__, "composite": composite})
            vt2.feed(out2.take())
            self.check_corrupt(vt2, 0, "fresh screen")
            self.compare(vt, vt2, composite)
            if not same_canvas:
                self.cleared_explicitly = False  # a new canvas was drawn and matched: the terminal is in step again
            keys = placement_keys(vt2)
        finally:
            try:
                s2.stop()
            finally:
                W.UrwidImageCanvas._ti_disguise_state = saved
                BUMPS.clear()
                BUMPS.update(saved_bumps)
        vt2.feed(out2.take())
        if vt2.placements:
            self.fail("stop() of a screen left graphics placements on the terminal", {"kind": "not_cleared", "after": "stop()"})
        # non-triviality bookkeeping
        if self.prev_keys is not None:
            changed = self.prev_keys - keys
            stayed = self.prev_keys & keys
            if changed:
                self.flags.add("changed")
            if changed and stayed:
                self.flags.add("changed_while_stayed")
        if keys:
            self.flags.add("graphics_on_screen")
        self.prev_keys = keys

    def disguises(self):
        """id -> hidden-text state of every live graphics widget (diagnosis only)."""
        out = {}
        ws = list(self.pool) + [r() for r in self.kitty_refs]
        for w in ws:
            if w is None or isinstance(w._ti_image, I.BlockImage):
                continue
            tot = W.UrwidImageCanvas._ti_disguise_state + w._ti_disguise_state
            out[id(w)] = (tot, getattr(w, "_ti_z_index", 0))
        return out

    def check_corrupt(self, vt, n_ev, who):
        bad = [e for e in vt.events[n_ev:] if e[0] in CORRUPT]
        if bad:
            self.fail(f"the output of the redraw ({who}) contains cut or malformed control sequences: {bad[:4]}; "
                      f"terminal rows: {[vt.text_row(y) for y in range(vt.rows)]}",
                      {"kind": "corrupt_sequence", "event": bad[0][0]})

    def missing_ok(self):
        if getattr(self, "allow_missing", False):
            return True
        # after an explicit clear_images(): only while the same canvas object keeps being "redrawn" (urwid skips it)
        return bool(getattr(self, "cleared_explicitly", False) and self.diag.get("same_canvas"))

    def compare(self, vt, vt2, composite):
        g1, g2 = vt.graphics_map(), vt2.graphics_map()
        if g1 != g2:
            ghost = sorted(c for c in g1 if g1[c] != g2.get(c) and set(g1[c]) - set(g2.get(c, ())))
            missing = sorted(c for c in g2 if g2[c] != g1.get(c) and set(g2[c]) - set(g1.get(c, ())))
            dup = sorted(c for c in g1 if c in g2 and set(g1[c]) == set(g2[c]) and g1[c] != g2[c])
            kind = "ghost" if ghost and not missing else "missing" if missing and not ghost else "stacked" if dup and not ghost and not missing else "ghost+missing"
            if kind == "missing" and self.missing_ok():
                self.flags.add("missing_after_explicit_clear")
                return
            if self.only_images and missing:
                # after a redraw whose write failed: missing images are urwid's doing (see failed_draw); left-over ones are not
                missing = []
                kind = "ghost" if ghost else "stacked"
                if not ghost and not dup:
                    return
            c = (ghost or missing or dup)[0]
            protos = sorted({e[1] for e in g1.get(c, ()) + g2.get(c, ())})

            def show(es):
                return [(z, proto, dx, dy) for z, proto, _, dx, dy in es]

            self.fail(f"graphics on the terminal differ from a from-scratch drawing of the same canvas ({kind}): "
                      f"{len(ghost)} cell(s) with a left-over image, {len(missing)} cell(s) with a missing image, {len(dup)} "
                      f"cell(s) with stacked duplicates; e.g. cell {c}: terminal {show(g1.get(c, ()))} vs expected "
                      f"{show(g2.get(c, ()))}\n  terminal rows: {[vt.text_row(y) for y in range(vt.rows)]}",
                      dict(self.diag, kind=kind, proto="+".join(protos), composite=composite))
        if self.only_images:
            return
        for y in range(vt.rows):
            r1, r2 = vt.grid[y], vt2.grid[y]
            for x in range(vt.cols):
                if (x, y) in g1 or ((x, y) in g2 and self.missing_ok()):
                    continue  # under a graphics placement on both terminals
                a, b = norm_cell(r1[x]), norm_cell(r2[x])
                if a != b and vt.profile == "wezterm" and a[4] is not None and a[4] == b[4] and \
                        any(w._ti_style_args.get("mix") for w in self.pool):
                    continue  # same image cell; WezTerm keeps whatever text lies under an image drawn with mix
                if a != b:
                    what = "image cell" if (a[4] is None) != (b[4] is None) else "text"
                    self.fail(f"cell {(x, y)} differs from a from-scratch drawing of the same canvas: terminal {a[:2] + a[4:]} vs "
                              f"expected {b[:2] + b[4:]}\n  terminal rows: {[vt.text_row(yy) for yy in range(vt.rows)]}\n  "
                              f"expected rows: {[vt2.text_row(yy) for yy in range(vt.rows)]}",
                              dict(self.diag, kind="cell", what=what, composite=composite))

    # ---------------------------------------------------------------------------------- driver
    def run(self):
        case = self.case
        for spec in case["pool"]:
            self.add_widget(spec)
        self.check_z()
        if case.get("foreign_first"):
            self.foreign()
        self.start()
        self.redraw()
        for ops in case["steps"]:
            for op in ops:
                self.apply(op)
                self.check_z()
            self.redraw()
            self.check_z()
        if self.started:
            self.stop()

    def close(self):
        try:
            if self.screen._started:
                self.screen.stop()
        except Exception:
            pass
        self.pool.clear()
        self.top = self.last_canvas = self.screen = None
        urwid.CanvasCache.clear()
        gc.collect()


def run_history(case, rec):
    lab = Lab(case, rec)
    try:
        lab.run()
    finally:
        styles = sorted(set(lab.styles))
        ident = case["ident"][0] or "unknown"
        rec.label(f"ident:{ident}", "forced" if case["force"] else "unforced", *sorted(lab.flags),
                  *(f"style:{s}" for s in styles))
        rec.count("redraws", lab.redraws)
        # control sequences the terminal model did not know, over the whole output incl. start()/stop()
        for e in sorted({e for e in lab.vt.events if e[0] in ("unknown_csi", "unknown_mode", "unknown_esc", "unknown_string")}):
            rec.label(f"model-unknown:{e[0]}:{e[1]}")
        if "changed_while_stayed" in lab.flags:
            rec.nontriv([lab.kinds, styles, case["ident"], case["force"]])
        lab.close()


def check_composite(case, rec):
    run_history(case, rec)


# ============================================================================================ z-index allocator

Z_PRESETS = [1, 2, -2, 2**31 - 2, -(2**31 - 2), 2**31 - 1, -(2**31 - 1), 2**31]


def z_cases():
    op = st.one_of(
        st.just({"op": "new", "style": "kitty"}), st.just({"op": "new", "style": "kitty"}),
        st.just({"op": "new", "style": "kitty", "sub": True}),
        st.sampled_from(["block", "iterm2"]).map(lambda s: {"op": "new", "style": s}),
        st.integers(0, 9).map(lambda i: {"op": "del", "i": i}), st.integers(0, 9).map(lambda i: {"op": "del", "i": i}),
        st.just({"op": "gc"}),
    )
    return st.fixed_dictionaries({
        "preset": st.sampled_from(Z_PRESETS + [1, 2**31 - 1, 2**31 - 1]),
        "ident": st.sampled_from(IDENTS),
        "ops": st.lists(op, min_size=1, max_size=25),
    })


def check_z_index(case, rec):
    from PIL import Image

    env.reset()
    urwid.CanvasCache.clear()
    collect_and_freeze()
    retire_prior()
    name, version = case["ident"]
    env.apply(name=name, version=version)
    _reset_z(case["preset"])
    model = RU.ZAllocModel(case["preset"])
    pil = Image.new("RGB", (2, 2), (10, 20, 30))
    widgets = []  # [widget or None, z or None]
    flags = set()
    kinds = []

    def fail(msg, sig):
        raise Violation(f"{msg}\n  preset={case['preset']} ops so far={kinds}", sig)

    for o in case["ops"]:
        k = o["op"]
        if k == "new":
            kinds.append("new:" + o["style"] + ("(subclass)" if o.get("sub") else ""))
            cls = {"kitty": I.KittyImage, "iterm2": I.ITerm2Image, "block": I.BlockImage}[o["style"]]
            image = cls(pil)
            expect_ok = o["style"] != "kitty" or model.can_alloc()
            try:
                w = (SubImage if o.get("sub") else W.UrwidImage)(image)
                if o.get("sub"):
                    flags.add("subclass")
            except UrwidImageError as e:
                if expect_ok:
                    fail(f"UrwidImage() raised UrwidImageError ({e}) although only {len(model.live)} kitty widgets are alive "
                         f"(recyclable: {len(model.free)}, sequence position {model.next})", {"kind": "z_spurious_error"})
                flags.add("exhausted")
                continue
            except Exception as e:
                fail(f"UrwidImage() raised {type(e).__name__}: {e}", {"kind": "exception", "where": "UrwidImage", "exc": type(e).__name__})
            if o["style"] != "kitty":
                if hasattr(w, "_ti_z_index"):
                    fail(f"a {o['style']} widget took z-index {w._ti_z_index}", {"kind": "z_nonkitty"})
                widgets.append([w, None])
                w = None
                continue
            if not expect_ok:
                fail(f"UrwidImage() handed out z-index {w._ti_z_index} although the index space is exhausted "
                     f"({len(model.live)} live)", {"kind": "z_exhausted_no_error"})
            z = w._ti_z_index
            if model.free and z in model.free:
                flags.add("recycled")
            bad = model.alloc_observed(z)
            if bad:
                fail(f"new kitty widget: {bad}; live z-indexes {sorted(model.live)}", {"kind": "z_alloc"})
            if w._ti_style_args.get("z_index") != z:
                fail(f"widget holds z-index {z} but renders with {w._ti_style_args.get('z_index')}", {"kind": "z_args"})
            widgets.append([w, z])
            _PRIOR.append(weakref.ref(w))
            w = None
        elif k == "del":
            live = [e for e in widgets if e[0] is not None]
            if not live:
                continue
            e = live[o["i"] % len(live)]
            kinds.append("del")
            r = weakref.ref(e[0])
            e[0] = None
            gc.collect()
            if r() is not None:
                raise HarnessError("widget not collected after del + gc.collect()")
            if e[1] is not None:
                model.release(e[1])
                flags.add("released")
        else:
            kinds.append("gc")
            gc.collect()
        zs = [e[0]._ti_z_index for e in widgets if e[0] is not None and e[1] is not None]
        if len(set(zs)) != len(zs):
            fail(f"live kitty widgets share a z-index: {sorted(zs)}", {"kind": "z_duplicate"})
        if any(not RU.Z_MIN <= z <= RU.Z_MAX for z in zs):
            fail(f"live z-index out of range: {sorted(zs)}", {"kind": "z_range"})
        if sorted(zs) != sorted(model.live):
            fail(f"live z-indexes {sorted(zs)} != model {sorted(model.live)}", {"kind": "z_model"})
    widgets.clear()
    gc.collect()
    near_end = abs(case["preset"]) >= 2**31 - 2
    rec.label("near_end" if near_end else "far", *sorted(flags))
    if flags & {"exhausted", "recycled"}:
        rec.nontriv([case["preset"], kinds])


CLAUSES = [
    Clause("redraw_composite", check_composite, lambda: histories(any_top=False, explicit_clear=False),
           budget={"quick": 1000, "thorough": 8000}, min_per_shard=12,
           floors={"style:kitty": 0.25, "graphics_on_screen": 0.25, "changed_while_stayed": 0.03, "ident:konsole": 0.03},
           doc="layout/pool/lifecycle histories whose top-level canvases are always CompositeCanvas"),
    Clause("redraw_any", check_composite, lambda: histories(any_top=True, explicit_clear=False),
           budget={"quick": 400, "thorough": 4000}, min_per_shard=12,
           floors={"noncomposite": 0.2, "style:kitty": 0.2},
           doc="as redraw_composite, plus bare SolidFill / UrwidImage top-level widgets (non-composite canvases)"),
    Clause("clear_images", check_composite, lambda: histories(any_top=False, explicit_clear=True),
           budget={"quick": 400, "thorough": 4000}, min_per_shard=12,
           floors={"explicit_clear": 0.2, "style:kitty": 0.2},
           doc="as redraw_composite, plus explicit clear_images()/clear_images(*widgets) and unchanged redraws"),
    Clause("lifecycle", check_composite, lambda: histories(any_top=False, explicit_clear=False, lifecycle=True),
           budget={"quick": 300, "thorough": 3000}, min_per_shard=12,
           floors={"foreign": 0.15},
           doc="start/stop/clear heavy histories with foreign images seeded while the screen is stopped"),
    Clause("z_index", check_z_index, z_cases, budget={"quick": 300, "thorough": 5000},
           floors={"near_end": 0.3, "exhausted": 0.08, "recycled": 0.08}),
]
