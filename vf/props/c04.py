"""C04 — automatic sizing always fits the frame, fills it, and preserves aspect ratio."""

from __future__ import annotations

from fractions import Fraction as F

from hypothesis import strategies as st

from ..core import Clause, Violation
from ..ref import sizing as R

META = {
    "level": "exploration",
    "rule": (
        "Clause pure: generated (family, source size 1..3000^2, terminal size, cell size or unknown, float cell "
        "ratio, absolute/relative frame, sizing mode) judged in exact Fraction arithmetic against the documented "
        "clauses (positivity, FIT/AUTO <= frame, FIT touches frame, FIT_TO_WIDTH == frame width, given dimension "
        "kept, free dimension within <1 cell of the exact aspect-preserving value, AUTO == ORIGINAL/FIT by the "
        "fits-in-pixels rule). Clause history: op lists over set_size/size=/width=/height=/resize/set_cell_ratio/"
        "render with a model of fixed vs dynamic sizes. Non-trivial = rounding or clamp active (exact value "
        "non-integer or < 1, or frame clamp engaged), or a history with a terminal/ratio change after a sizing "
        "op; distinct by (family, mode, branch flags, size hash)."
    ),
    "assumptions": ["AUTO may pick either ORIGINAL or FIT when the scaled source height exceeds the frame by < 1/2 pixel"],
}

I = env = TI = None


def setup():
    global I, env, TI
    from .. import env as _env

    _env.install()
    import term_image
    import term_image.image as _I

    I, env, TI = _I, _env, term_image


MODES = ["FIT", "AUTO", "ORIGINAL", "FIT_TO_WIDTH", "width", "height"]

dim = st.one_of(st.integers(1, 40), st.integers(1, 400), st.integers(1, 3000))
ratio = st.one_of(
    st.sampled_from([0.5, 0.5, 1.0, 0.25, 0.4, 0.45, 2.0]),
    st.floats(0.05, 4.0, allow_nan=False, allow_infinity=False),
)


@st.composite
def geom(draw):
    fam = draw(st.sampled_from(["block", "kitty"]))
    cell = None
    if fam == "kitty" and draw(st.integers(0, 5)) != 0:
        cell = [draw(st.integers(1, 20)), draw(st.integers(1, 40))]
    return {
        "family": fam, "ow": draw(dim), "oh": draw(dim),
        "cols": draw(st.one_of(st.integers(1, 12), st.integers(1, 200))),
        "rows": draw(st.one_of(st.integers(1, 8), st.integers(1, 80))),
        "cell": cell, "ratio": draw(ratio),
    }


def frame_st():
    rel = st.integers(-6, 0)
    return st.tuples(st.one_of(rel, st.integers(1, 120)), st.one_of(rel, st.integers(1, 60))).map(list)


@st.composite
def pure_cases(draw):
    c = draw(geom())
    c["mode"] = draw(st.sampled_from(MODES))
    c["twin"] = draw(st.sampled_from([False, False, True]))
    c["frame"] = draw(st.one_of(st.just([0, -2]), frame_st()))
    if c["mode"] in ("width", "height"):
        c["given"] = draw(st.one_of(st.integers(1, 10), st.integers(1, 300)))
    return c


def make(c):
    from PIL import Image

    cls = I.BlockImage if c["family"] == "block" else I.KittyImage
    return cls(Image.new("1", (c["ow"], c["oh"])))


def lib(fn, what):
    try:
        return fn()
    except Exception as e:
        raise Violation(f"{what} raised {type(e).__name__}: {e}", {"kind": "exception"})


def posint(size, what):
    if not (isinstance(size, tuple) and len(size) == 2 and all(type(v) is int and v >= 1 for v in size)):
        raise Violation(f"{what}: size {size!r} is not a pair of positive integers", {"kind": "positivity"})


def check_size_result(c, size, mode, frame, cols, rows, given, g: R.Geometry, rec=None, results=None):
    """Judges one computed size against the documented clauses."""
    W, H = size
    fcols, flines = R.resolve_frame(frame, cols, rows)
    ctx = f"[{c['family']} src={c['ow']}x{c['oh']} term={cols}x{rows} cell={c['cell']} ratio={c['ratio']!r} frame={frame}->{(fcols, flines)} mode={mode} given={given}] size={size}"
    posint(size, ctx)
    flags = []
    if mode in ("FIT", "AUTO") and (W > fcols or H > flines):
        raise Violation(f"{mode} exceeds the frame: {ctx}", {"kind": "exceeds_frame", "mode": mode})
    if mode == "FIT":
        okw = W == fcols and R.close(H, g.height_for_width(W))
        okh = H == flines and R.close(W, g.width_for_height(H))
        if not (W == fcols or H == flines):
            raise Violation(f"FIT touches the frame on neither axis: {ctx}", {"kind": "fit_not_touching"})
        if not (okw or okh):
            raise Violation(
                f"FIT free dimension off by >= 1 cell: exact H for W = {float(g.height_for_width(W)):.4f}, "
                f"exact W for H = {float(g.width_for_height(H)):.4f}: {ctx}", {"kind": "aspect", "mode": mode})
        e = g.height_for_width(W) if okw else g.width_for_height(H)
        if e.denominator != 1 or e < 1:
            flags.append("rounding")
        if W == fcols and H == flines:
            flags.append("both_touch")
    elif mode == "FIT_TO_WIDTH":
        if W != fcols:
            raise Violation(f"FIT_TO_WIDTH width != frame width: {ctx}", {"kind": "fit_to_width"})
        e = g.height_for_width(W)
        if not R.close(H, e):
            raise Violation(f"FIT_TO_WIDTH height {H} vs exact {float(e):.4f}: {ctx}", {"kind": "aspect", "mode": mode})
        if e.denominator != 1 or e < 1:
            flags.append("rounding")
    elif mode == "width":
        if W != given:
            raise Violation(f"given width not kept: {ctx}", {"kind": "given"})
        e = g.height_for_width(W)
        if not R.close(H, e):
            raise Violation(f"height {H} for width {W} vs exact {float(e):.4f}: {ctx}", {"kind": "aspect", "mode": mode})
        if e.denominator != 1 or e < 1:
            flags.append("rounding")
    elif mode == "height":
        if H != given:
            raise Violation(f"given height not kept: {ctx}", {"kind": "given"})
        e = g.width_for_height(H)
        if not R.close(W, e):
            raise Violation(f"width {W} for height {H} vs exact {float(e):.4f}: {ctx}", {"kind": "aspect", "mode": mode})
        if e.denominator != 1 or e < 1:
            flags.append("rounding")
    elif mode == "ORIGINAL":
        ew, eh = g.original()
        if not (R.close(W, ew) and R.close(H, eh)):
            raise Violation(f"ORIGINAL {size} vs exact ({float(ew):.4f}, {float(eh):.4f}): {ctx}", {"kind": "aspect", "mode": mode})
        if ew.denominator != 1 or eh.denominator != 1 or ew < 1 or eh < 1:
            flags.append("rounding")
    elif mode == "AUTO":
        fits = g.fits_px(fcols, flines)
        ori, fit = results["ORIGINAL"], results["FIT"]
        if fits is True and size != ori:
            raise Violation(f"AUTO != ORIGINAL {ori} although the source fits the frame: {ctx}", {"kind": "auto"})
        if fits is False and size != fit:
            raise Violation(f"AUTO != FIT {fit} although the source does not fit the frame: {ctx}", {"kind": "auto"})
        if fits is None and size not in (ori, fit):
            raise Violation(f"AUTO is neither ORIGINAL {ori} nor FIT {fit}: {ctx}", {"kind": "auto"})
        flags.append("auto_fits" if fits else ("auto_band" if fits is None else "auto_nofit"))
    return flags


def apply_cfg(c):
    env.reset()
    env.apply(cols=c["cols"], rows=c["rows"], cell=c["cell"], name="kitty", version="0.26.5")
    TI.set_cell_ratio(c["ratio"])


def compute(image, mode, frame, given):
    S = I.Size
    if mode == "width":
        image.set_size(width=given, frame_size=tuple(frame))
    elif mode == "height":
        image.set_size(height=given, frame_size=tuple(frame))
    else:
        image.set_size(S[mode], frame_size=tuple(frame))
    return image.size


def check_pure(c, rec):
    apply_cfg(c)
    image = make(c)
    g = R.Geometry(c["family"], c["ow"], c["oh"], c["cell"], c["ratio"])
    mode, frame, given = c["mode"], c["frame"], c.get("given")
    results = {}
    if mode == "AUTO":
        for m in ("ORIGINAL", "FIT"):
            results[m] = lib(lambda: compute(image, m, frame, None), f"set_size({m})")
    if c.get("twin"):
        # another image object of the OTHER style family, same source size, asked the same thing just before
        other = make(dict(c, family="block" if c["family"] == "kitty" else "kitty"))
        try:
            compute(other, mode, frame, given)
            other.rendered_size
        except Exception:
            pass
        other.close()
        rec.label("twin_other_family")
    size = lib(lambda: compute(image, mode, frame, given), f"set_size({mode})")
    flags = check_size_result(c, size, mode, frame, c["cols"], c["rows"], given, g, rec, results)
    # the same mode via width= / height= keyword positions and via rendered_size of a dynamic size
    if mode in I.Size.__members__:
        alt = lib(lambda: (image.set_size(height=I.Size[mode], frame_size=tuple(frame)), image.size)[1], "set_size(height=Size)")
        if alt != size:
            raise Violation(f"set_size(height=Size.{mode}) gives {alt}, set_size(width=Size.{mode}) gives {size}", {"kind": "inconsistent"})
        if frame == [0, -2]:
            image.size = I.Size[mode]
            dyn = lib(lambda: image.rendered_size, "rendered_size")
            if dyn != size or (image.rendered_width, image.rendered_height) != size:
                raise Violation(f"dynamic Size.{mode} rendered_size {dyn} != fixed result {size}", {"kind": "inconsistent"})
    rec.label(f"mode:{mode}", f"family:{c['family']}", *flags)
    if flags:
        rec.nontriv([c["family"], mode, sorted(flags), c["ow"] % 7, c["oh"] % 7, size[0] % 5, size[1] % 5])
    image.close()


# ------------------------------------------------------------------------------ histories

OPS = ["set_size_mode", "set_size_manual", "set_width", "set_height", "assign_size_enum", "assign_size_tuple",
       "resize", "ratio", "cell", "render", "read", "ratio_auto_rejected"]


@st.composite
def op(draw):
    k = draw(st.sampled_from(OPS))
    o = {"op": k}
    if k == "set_size_mode":
        o["mode"] = draw(st.sampled_from(["FIT", "AUTO", "ORIGINAL", "FIT_TO_WIDTH"]))
        o["frame"] = draw(st.one_of(st.just([0, -2]), frame_st()))
    elif k in ("set_size_manual", "assign_size_tuple"):
        o["w"], o["h"] = draw(st.integers(1, 30)), draw(st.integers(1, 15))
    elif k == "set_width":
        o["w"] = draw(st.integers(1, 30))
    elif k == "set_height":
        o["h"] = draw(st.integers(1, 15))
    elif k == "assign_size_enum":
        o["mode"] = draw(st.sampled_from(["FIT", "AUTO", "ORIGINAL", "FIT_TO_WIDTH"]))
    elif k == "resize":
        o["cols"], o["rows"] = draw(st.integers(1, 100)), draw(st.integers(1, 50))
    elif k == "ratio":
        o["ratio"] = draw(ratio)
    elif k == "cell":
        o["cell"] = draw(st.one_of(st.none(), st.tuples(st.integers(1, 12), st.integers(1, 24)).map(list)))
    return o


@st.composite
def histories(draw):
    c = draw(geom())
    c["ow"], c["oh"] = draw(st.integers(1, 60)), draw(st.integers(1, 60))  # rendered: keep pixels small
    c["ops"] = draw(st.lists(op(), min_size=2, max_size=12))
    # a second image of the same class, left at its default (dynamic) size, is rendered alongside at every "render"
    c["companion"] = draw(st.booleans())
    return c


def check_history(c, rec):
    apply_cfg(c)
    image = make(c)
    S = I.Size
    cur = dict(c)  # current configuration
    model = ("dynamic", "FIT")  # constructor default
    companion = make(c) if c.get("companion") else None
    changed_after_fixed = False
    kinds = []
    for o in c["ops"]:
        k = o["op"]
        kinds.append(k)
        g = R.Geometry(c["family"], c["ow"], c["oh"], cur["cell"], cur["ratio"])
        if k == "set_size_mode":
            size = lib(lambda: compute(image, o["mode"], o["frame"], None), "set_size")
            results = {}
            if o["mode"] == "AUTO":
                probe = make(c)
                for m in ("ORIGINAL", "FIT"):
                    results[m] = compute(probe, m, o["frame"], None)
            check_size_result(cur, size, o["mode"], o["frame"], cur["cols"], cur["rows"], None, g, rec, results)
            model = ("fixed", size)
        elif k == "set_size_manual":
            lib(lambda: image.set_size(o["w"], o["h"]), "set_size(w,h)")
            model = ("fixed", (o["w"], o["h"]))
        elif k == "assign_size_tuple":
            lib(lambda: setattr(image, "size", (o["w"], o["h"])), "size=(w,h)")
            model = ("fixed", (o["w"], o["h"]))
        elif k == "set_width":
            lib(lambda: setattr(image, "width", o["w"]), "width=")
            check_size_result(cur, image.size, "width", [0, -2], cur["cols"], cur["rows"], o["w"], g)
            model = ("fixed", image.size)
        elif k == "set_height":
            lib(lambda: setattr(image, "height", o["h"]), "height=")
            check_size_result(cur, image.size, "height", [0, -2], cur["cols"], cur["rows"], o["h"], g)
            model = ("fixed", image.size)
        elif k == "assign_size_enum":
            lib(lambda: setattr(image, "size", S[o["mode"]]), "size=Size")
            model = ("dynamic", o["mode"])
        elif k == "resize":
            cur["cols"], cur["rows"] = o["cols"], o["rows"]
            env.apply(cols=o["cols"], rows=o["rows"])
            changed_after_fixed |= model[0] == "fixed"
        elif k == "ratio":
            cur["ratio"] = o["ratio"]
            TI.set_cell_ratio(o["ratio"])
            changed_after_fixed |= model[0] == "fixed"
        elif k == "ratio_auto_rejected":
            # an automatic cell ratio is requested where the cell size cannot be determined: rejected, and the
            # ratio in effect (hence every later size) stays what it was
            if cur["cell"] is None:
                for auto in (TI.AutoCellRatio.FIXED, TI.AutoCellRatio.DYNAMIC):
                    TI.AutoCellRatio.is_supported = None
                    try:
                        TI.set_cell_ratio(auto)
                    except TI.exceptions.TermImageError:
                        pass
                    else:
                        raise Violation(f"set_cell_ratio({auto}) accepted although the cell size is unknown", {"kind": "auto_ratio_accepted"})
                TI.AutoCellRatio.is_supported = None
                if TI.get_cell_ratio() != cur["ratio"]:
                    raise Violation(f"a rejected set_cell_ratio(AutoCellRatio...) changed the cell ratio {cur['ratio']} -> {TI.get_cell_ratio()}",
                                    {"kind": "auto_ratio_rejected_but_changed"})
                rec.label("auto_ratio_rejected")
        elif k == "cell":
            cur["cell"] = o["cell"]
            env.apply(cell=o["cell"])
            changed_after_fixed |= model[0] == "fixed"
        elif k == "render":
            before = image.size
            W, H = image.rendered_size
            if W * H <= 4000 and W * (cur["cell"] or [1, 2])[0] * H * (cur["cell"] or [1, 2])[1] <= 400000:
                out = lib(lambda: str(image), "str(image)")
                if out.count("\n") != H - 1:
                    raise Violation(f"render of size {(W, H)} has {out.count(chr(10)) + 1} lines", {"kind": "render_lines"})
            if image.size is not before and image.size != before:
                raise Violation(f"rendering changed the size setting {before!r} -> {image.size!r}", {"kind": "size_changed"})
            if companion is not None:
                # the companion's render has its own rendered size, whatever was rendered before it and under whichever
                # configuration; and rendering it changes nothing about the first image (invariant below)
                CW, CH = lib(lambda: companion.rendered_size, "rendered_size")
                if CW * CH <= 4000 and CW * (cur["cell"] or [1, 2])[0] * CH * (cur["cell"] or [1, 2])[1] <= 400000:
                    out = lib(lambda: str(companion), "str(companion image)")
                    if out.count("\n") != CH - 1:
                        raise Violation(f"render of a second {c['family']} image whose rendered_size is {(CW, CH)} has "
                                        f"{out.count(chr(10)) + 1} lines (ops {kinds})", {"kind": "render_lines", "companion": True})
                    if c["family"] == "block":
                        import re

                        widths = {len(re.sub("\x1b\\[[0-9;]*m", "", ln)) for ln in out.split("\n")}
                        if widths != {CW}:
                            raise Violation(f"render of a second block image whose rendered_size is {(CW, CH)} has lines of "
                                            f"{sorted(widths)} columns (ops {kinds})", {"kind": "render_width", "companion": True})
                if companion.size is not S.FIT:
                    raise Violation(f"the second image's default size setting became {companion.size!r}", {"kind": "dynamic_changed"})
                rec.label("companion_rendered")
        # invariant after every op
        g = R.Geometry(c["family"], c["ow"], c["oh"], cur["cell"], cur["ratio"])
        if model[0] == "fixed":
            if image.size != model[1]:
                raise Violation(f"fixed size {model[1]} changed to {image.size!r} after {k} (ops {kinds})", {"kind": "fixed_changed"})
            if image.rendered_size != model[1] or (image.width, image.height) != model[1]:
                raise Violation(f"rendered_size {image.rendered_size} != fixed size {model[1]}", {"kind": "fixed_changed"})
        else:
            if image.size is not S[model[1]] or image.width is not S[model[1]] or image.height is not S[model[1]]:
                raise Violation(f"dynamic size setting {model[1]} reads back as {image.size!r} after {k}", {"kind": "dynamic_changed"})
            rs = lib(lambda: image.rendered_size, "rendered_size")
            results = {}
            if model[1] == "AUTO":
                probe = make(c)
                for m in ("ORIGINAL", "FIT"):
                    results[m] = compute(probe, m, [0, -2], None)
            check_size_result(cur, rs, model[1], [0, -2], cur["cols"], cur["rows"], None, g, rec, results)
            if image.size is not S[model[1]]:
                raise Violation("reading rendered_size changed the dynamic size setting", {"kind": "dynamic_changed"})
    rec.label(f"family:{c['family']}", "changed_after_fixed" if changed_after_fixed else "plain")
    if changed_after_fixed or "assign_size_enum" in kinds:
        rec.nontriv([c["family"], kinds])
    image.close()
    if companion is not None:
        companion.close()


# ------------------------------------------------------------------------------ urwid rows

@st.composite
def rows_cases(draw):
    c = draw(geom())
    c["ow"], c["oh"] = draw(st.integers(1, 40)), draw(st.integers(1, 40))
    c["maxcol"] = draw(st.integers(1, 40))
    c["upscale"] = draw(st.booleans())
    if c["cell"]:
        c["cell"] = [min(c["cell"][0], 6), min(c["cell"][1], 12)]
    if draw(st.booleans()):
        # the widget is first used under another cell ratio / cell size (same family of styles)
        p = draw(geom())
        if p["cell"]:
            p["cell"] = [min(p["cell"][0], 6), min(p["cell"][1], 12)]
        c["prior"] = {k: p[k] for k in p if k not in ("family",)}
    return c


def check_rows(c, rec):
    from term_image.widget import UrwidImage

    UrwidImage._ti_next_z_index = 1
    UrwidImage._ti_free_z_indexes.clear()
    if c.get("prior"):
        apply_cfg(dict(c, **c["prior"]))
        image = make(c)
        w = UrwidImage(image, upscale=c["upscale"])
        lib(lambda: w.rows((c["maxcol"],)), "UrwidImage.rows")
        lib(lambda: w.render((c["maxcol"],)), "UrwidImage.render")
        apply_cfg(c)
        import urwid as _urwid

        _urwid.CanvasCache.clear()  # urwid's own canvas cache is keyed by widget and size only
        rec.label("prior_config")
    else:
        apply_cfg(c)
        image = make(c)
        w = UrwidImage(image, upscale=c["upscale"])
    n = lib(lambda: w.rows((c["maxcol"],)), "UrwidImage.rows")
    if c.get("prior"):
        image2 = make(c)
        n2 = lib(lambda: UrwidImage(image2, upscale=c["upscale"]).rows((c["maxcol"],)), "UrwidImage.rows")
        image2.close()
        if n != n2:
            raise Violation(f"flow widget first used under another cell geometry announces {n} rows for width {c['maxcol']}, a fresh "
                            f"widget under the current geometry announces {n2} ({c['family']} src {c['ow']}x{c['oh']} cell {c['cell']} "
                            f"ratio {c.get('ratio')} upscale={c['upscale']}; before: {c['prior']})", {"kind": "urwid_rows_stale"})
    canv = lib(lambda: w.render((c["maxcol"],)), "UrwidImage.render")
    if canv.rows() != n or canv.cols() != c["maxcol"]:
        raise Violation(f"flow widget announces {n} rows for width {c['maxcol']} but renders "
                        f"{canv.cols()}x{canv.rows()} ({c['family']} src {c['ow']}x{c['oh']} cell {c['cell']} upscale={c['upscale']})",
                        {"kind": "urwid_rows"})
    content = list(canv.content())
    if len(content) != n:
        raise Violation(f"flow widget announces {n} rows but its canvas yields {len(content)}", {"kind": "urwid_rows"})
    rec.label(f"family:{c['family']}", "upscale" if c["upscale"] else "noupscale")
    rec.nontriv([c["family"], c["upscale"], n, c["maxcol"]])
    del w
    image.close()


# ------------------------------------------------------------------------------ failed renders keep the size setting

@st.composite
def fail_cases(draw):
    c = draw(geom())
    c["ow"], c["oh"] = draw(st.integers(1, 30)), draw(st.integers(1, 30))
    c["mode"] = draw(st.sampled_from(["FIT", "AUTO", "ORIGINAL", "FIT_TO_WIDTH"]))
    c["fail"] = draw(st.sampled_from(["missing_file", "unreadable_file", "closed", "convert"]))
    c["entry"] = draw(st.sampled_from(["str", "format", "draw", "iter"]))
    c["resize"] = [draw(st.integers(1, 100)), draw(st.integers(1, 50))]
    return c


def check_failed_render(c, rec):
    """A render that fails (source file gone/unreadable, finalized image, unconvertible mode) must leave a
    dynamic size dynamic: afterwards the size still follows the terminal."""
    import io
    import os
    import sys
    import tempfile

    from PIL import Image

    apply_cfg(c)
    cls = I.BlockImage if c["family"] == "block" else I.KittyImage
    S = I.Size
    path = None
    if c["fail"] in ("missing_file", "unreadable_file"):
        fd, path = tempfile.mkstemp(suffix=".png", prefix="vf-c04-")
        os.close(fd)
        Image.new("RGB", (c["ow"], c["oh"]), (1, 2, 3)).save(path)
        image = cls.from_file(path)
    elif c["fail"] == "convert":
        image = cls(Image.new("La", (c["ow"], c["oh"])))  # cannot be converted to RGB(A): RenderError
    else:
        image = make(c)
    try:
        image.size = S[c["mode"]]
        if c["fail"] == "missing_file":
            os.remove(path)
        elif c["fail"] == "unreadable_file":
            with open(path, "wb") as f:
                f.write(b"not an image")
        elif c["fail"] == "closed":
            image.close()
        real = sys.stdout
        sys.stdout = io.StringIO()
        try:
            if c["entry"] == "str":
                str(image)
            elif c["entry"] == "format":
                format(image, "1.1")
            elif c["entry"] == "draw":
                image.draw()
            else:
                iter(image)
            failed = None
        except Exception as e:
            failed = e
        finally:
            sys.stdout = real
        if failed is None and c["entry"] != "iter":
            raise Violation(f"{c['entry']} of an image whose source is {c['fail']} did not fail", {"kind": "no_failure"})
        if image.size is not S[c["mode"]]:
            raise Violation(f"a failed {c['entry']} ({c['fail']}: {type(failed).__name__}) changed the dynamic size setting "
                            f"Size.{c['mode']} to {image.size!r}", {"kind": "size_changed_by_failed_render", "fail": c["fail"]})
        if c["fail"] != "closed":
            cols, rows = c["resize"]
            env.apply(cols=cols, rows=rows)
            cur = dict(c, cols=cols, rows=rows)
            g = R.Geometry(c["family"], c["ow"], c["oh"], c["cell"], c["ratio"])
            results = {}
            if c["mode"] == "AUTO":
                probe = make(c)
                for m in ("ORIGINAL", "FIT"):
                    results[m] = compute(probe, m, [0, -2], None)
            check_size_result(cur, image.rendered_size, c["mode"], [0, -2], cols, rows, None, g, rec, results)
    finally:
        image.close()
        if path and os.path.exists(path):
            os.remove(path)
    rec.label(f"fail:{c['fail']}", f"entry:{c['entry']}")
    rec.nontriv([c["family"], c["mode"], c["fail"], c["entry"]])


CLAUSES = [
    Clause("pure", check_pure, pure_cases, budget={"quick": 20000, "thorough": 1500000},
           floors={"rounding": 0.2, "mode:AUTO": 0.08, "mode:FIT": 0.08}),
    Clause("history", check_history, histories, budget={"quick": 2000, "thorough": 50000},
           floors={"changed_after_fixed": 0.2}),
    Clause("urwid_rows", check_rows, rows_cases, budget={"quick": 800, "thorough": 20000}),
    Clause("failed_render", check_failed_render, fail_cases, budget={"quick": 200, "thorough": 4000}),
]
