"""C14 engine B: real threads + real processes (children and grandchildren) hammering
lock_tty-synchronized functions.  Run as a script:

    python c14_procs.py <fork|spawn|forkserver> <probe|query> <rounds> <seed>

Prints one line "RESULT {json}".  The process makes a fresh pty its controlling terminal and
fd 0 before importing term_image, so that parent and (spawned) children all discover it as the
active terminal, exactly as processes sharing a real terminal would.
"""

import fcntl
import json
import os
import pty
import sys
import termios
import threading
import time

_IS_MAIN = __name__ == "__main__"

if _IS_MAIN:
    try:
        os.setsid()
    except OSError:
        pass
    _MASTER, _SLAVE = pty.openpty()
    try:
        fcntl.ioctl(_SLAVE, termios.TIOCSCTTY, 0)
    except OSError:
        pass
    os.dup2(_SLAVE, 0)
    sys.__stdin__ = sys.stdin = open(0, "r", closefd=False)
    # stdout is the terminal too, as in an interactive session (children started with forkserver have
    # their stdin closed and find the terminal through stdout); results go to the original stdout
    _RESULT_FD = os.dup(1)
    os.dup2(_SLAVE, 1)

import warnings  # noqa: E402

warnings.filterwarnings("ignore")
import multiprocessing as mp  # noqa: E402

import term_image.utils as U  # noqa: E402  (wraps Process.start / Process.run when a TTY is found)


@U.lock_tty
def probe(word, overlaps, entries, delay, depth=0):
    me = os.getpid() * 1000 + threading.get_ident() % 1000
    if depth == 0:
        if word.value != 0:
            overlaps.value += 1
        word.value = me
    t_end = time.perf_counter() + delay
    while time.perf_counter() < t_end:
        pass
    if depth < 1 and (me % 3 == 0):
        probe(word, overlaps, entries, 0.0, depth + 1)  # re-entrant
    if depth == 0:
        if word.value != me:
            overlaps.value += 1
        word.value = 0
        entries.value += 1


def query_once(ident, wrong, lost, entries):
    req = b"\x1b]7777;%d\x1b\\" % ident
    resp = U.query_terminal(req, lambda s: not s.endswith(b"\x1b\\"), 5.0)
    if resp is None or resp == b"":
        lost.value += 1
    elif resp != req:
        wrong.value += 1
    entries.value += 1


def loop(kind, shared, n, delay, base_id):
    word, overlaps, entries, wrong, lost = shared
    for i in range(n):
        if kind == "probe":
            probe(word, overlaps, entries, delay)
        else:
            query_once(base_id + i, wrong, lost, entries)


def child_main(kind, shared, n, delay, level, base_id):
    if U._tty_fd == -1:
        os._exit(3)  # the child did not find the terminal: the set-up is broken, not the library
    ths = [threading.Thread(target=loop, args=(kind, shared, n, delay, base_id + 100 * j)) for j in range(2)]
    for t in ths:
        t.start()
    grand = None
    if level < 1:
        grand = mp.Process(target=child_main, args=(kind, shared, n, delay, level + 1, base_id + 5000))
        grand.start()
    for t in ths:
        t.join()
    if grand is not None:
        grand.join(120)
        if grand.exitcode != 0:
            os._exit(4)


def responder(stop):
    buf = b""
    os.set_blocking(_MASTER, False)
    import re
    import select

    pat = re.compile(rb"\x1b\]7777;(\d+)\x1b\\")
    while not stop.is_set():
        r, _, _ = select.select([_MASTER], [], [], 0.05)
        if not r:
            continue
        try:
            buf += os.read(_MASTER, 65536)
        except OSError:
            continue
        while True:
            m = pat.search(buf)
            if not m:
                buf = buf[-64:]
                break
            buf = buf[m.end():]
            time.sleep(0.0005 * (int(m.group(1)) % 5))
            os.write(_MASTER, m.group(0))


def main():
    method, variant, rounds, seed = sys.argv[1], sys.argv[2], int(sys.argv[3]), int(sys.argv[4])
    mp.set_start_method(method)
    if U._tty_fd == -1:
        os.write(_RESULT_FD, ("RESULT " + json.dumps({"inconclusive": "no active terminal in the harness process"}) + "\n").encode())
        return
    word, overlaps, entries = mp.RawValue("q", 0), mp.RawValue("i", 0), mp.RawValue("i", 0)
    wrong, lost = mp.RawValue("i", 0), mp.RawValue("i", 0)
    shared = (word, overlaps, entries, wrong, lost)
    stop = threading.Event()
    rt = None
    if variant == "query":
        rt = threading.Thread(target=responder, args=(stop,), daemon=True)
        rt.start()
    n = 150 if variant == "probe" else 25
    delay = 0.00002 * (1 + seed % 5)
    procs = []
    bad = 0
    t0 = time.time()
    for rnd in range(rounds):
        ths = [threading.Thread(target=loop, args=(variant, shared, n, delay, 100000 * (rnd + 1) + 1000 * j)) for j in range(3)]
        for t in ths:
            t.start()
        # the main thread keeps starting processes while the other threads are inside/around the lock
        for k in range(3):
            p = mp.Process(target=child_main, args=(variant, shared, n, delay, 0, 1000000 * (rnd + 1) + 20000 * k))
            p.start()
            procs.append(p)
            loop(variant, shared, 5, delay, 50000 * (rnd + 1) + 100 * k)
        for t in ths:
            t.join()
    for p in procs:
        p.join(150)
        if p.exitcode is None:
            p.kill()
            bad += 1
        elif p.exitcode != 0:
            bad += 1
    stop.set()
    res = {"method": method, "variant": variant, "overlaps": overlaps.value, "entries": entries.value,
           "wrong_replies": wrong.value, "lost_replies": lost.value, "bad_exit": bad, "processes": len(procs) * 2,
           "wall": round(time.time() - t0, 2),
           "lock_type": type(U._tty_lock).__module__ + "." + type(U._tty_lock).__name__}
    if lost.value and not wrong.value and not overlaps.value:
        res["inconclusive"] = "query timed out without any sign of interference"
    os.write(_RESULT_FD, ("RESULT " + json.dumps(res) + "\n").encode())


if _IS_MAIN:
    main()
