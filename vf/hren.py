"""Harness renderables (the library has no concrete Renderable): instrumented, deterministic
glyph-grid renderables whose output encodes position and frame number."""

from __future__ import annotations


def grid_text(w: int, h: int, n: int = 0, salt: int = 0) -> str:
    """w x h letters; the letter at (x, y) of frame n is a pure function of (x, y, n, salt)."""
    return "\n".join(
        "".join(chr(65 + (x + 3 * y + 7 * n + 11 * salt) % 26) for x in range(w)) for y in range(h)
    )


_classes = {}


def classes():
    """Builds (once per process) the harness render classes; term_image.renderable must be
    importable (vf.env.install() done)."""
    if _classes:
        return _classes
    from term_image.geometry import Size
    from term_image.renderable import ArgsNamespace, DataNamespace, Frame, FrameCount, FrameDuration, Renderable, Seek

    class Grid(Renderable):
        """Definite or non-animated glyph-grid renderable."""

        def __init__(self, w, h, frame_count=1, duration=40):
            super().__init__(frame_count, duration)
            self.w, self.h = w, h
            self.log = []  # (event, ...) tuples
            self.datas = []  # every RenderData created, strong refs: [data, finalize_calls]
            self.fail_at = None  # (k, exception instance) -> k-th _render_ call raises
            self.renders = 0

        hook_at = None  # (k, fn) -> fn() is called from within the k-th _render_ call (a callback run by a render)

        def _get_render_size_(self):
            return Size(self.w, self.h)

        def _handle_interrupted_draw_(self, render_data, render_args, output):
            self.log.append(("interrupted_hook", render_data.finalized))

        def _get_render_data_(self, *, iteration):
            data = super()._get_render_data_(iteration=iteration)
            self.datas.append([data, 0])
            return data

        @classmethod
        def _finalize_render_data_(cls, render_data):
            for inst in cls._instances:
                for entry in inst.datas:
                    if entry[0] is render_data:
                        entry[1] += 1
            super()._finalize_render_data_(render_data)

        _instances = []

        def _render_(self, render_data, render_args):
            d = render_data[Renderable]
            self.renders += 1
            self.log.append(("render", d.frame_offset, int(d.seek_whence), tuple(d.size), render_data.finalized,
                             d.duration if self.animated else None, render_args))
            if render_data.finalized:
                self.log.append(("render_with_finalized_data",))
            if self.hook_at and self.hook_at[0] == self.renders:
                fn, self.hook_at = self.hook_at[1], None
                fn()
            if self.fail_at and self.fail_at[0] == self.renders:
                make = self.fail_at[1]
                self.fail_at = None  # never keep a raised exception (its traceback pins frames) alive
                raise make() if callable(make) and not isinstance(make, BaseException) else make
            n = d.frame_offset
            w, h = d.size
            salt = 0
            try:
                salt = render_args[Grid].salt
            except Exception:
                pass
            if self.animated:
                dur = d.duration
                if dur is FrameDuration.DYNAMIC:
                    dur = 10 + n
            else:
                dur = 0
            return Frame(n, dur, d.size, grid_text(w, h, n, salt))

    class GridArgs(ArgsNamespace, render_cls=Grid):
        salt: int = 0

    class Sub(Grid):
        pass

    class SubArgs(ArgsNamespace, render_cls=Sub):
        extra: int = 0

    class Other(Renderable):
        def _get_render_size_(self):
            return Size(1, 1)

        def _render_(self, render_data, render_args):
            return Frame(0, 1, Size(1, 1), " ")

    class OtherArgs(ArgsNamespace, render_cls=Other):
        o: int = 0

    class Stream(Grid):
        """INDEFINITE renderable over a finite stream of `length` frames; implements all three
        seek kinds on its own stream position kept in its render data namespace."""

        def __init__(self, w, h, length, duration=40):
            Renderable.__init__(self, FrameCount.INDEFINITE, duration)
            self.w, self.h = w, h
            self.length = length
            self.log = []
            self.datas = []
            self.fail_at = None
            self.renders = 0

        def _get_render_data_(self, *, iteration):
            data = super()._get_render_data_(iteration=iteration)
            data[Stream].pos = 0
            return data

        def _render_(self, render_data, render_args):
            d = render_data[Renderable]
            sd = render_data[Stream]
            self.renders += 1
            self.log.append(("render", d.frame_offset, int(d.seek_whence), tuple(d.size), render_data.finalized,
                             d.duration, render_args))
            if render_data.finalized:
                self.log.append(("render_with_finalized_data",))
            if self.hook_at and self.hook_at[0] == self.renders:
                fn, self.hook_at = self.hook_at[1], None
                fn()
            if self.fail_at and self.fail_at[0] == self.renders:
                make = self.fail_at[1]
                self.fail_at = None  # never keep a raised exception (its traceback pins frames) alive
                raise make() if callable(make) and not isinstance(make, BaseException) else make
            if d.iteration:
                off, wh = d.frame_offset, d.seek_whence
                if wh == Seek.START:
                    pos = off
                elif wh == Seek.CURRENT:
                    pos = sd.pos + off
                else:
                    pos = self.length - 1 + off
                pos = max(pos, 0)
                if pos >= self.length:
                    raise StopIteration
                sd.pos = pos + 1
            else:
                pos = 0
            w, h = d.size
            dur = d.duration
            if dur is FrameDuration.DYNAMIC:
                dur = 10 + pos
            salt = 0
            try:
                salt = render_args[Grid].salt
            except Exception:
                pass
            return Frame(pos, dur, d.size, grid_text(w, h, pos, salt))

    class StreamData(DataNamespace, render_cls=Stream):
        pos: int

    def new(kind, *a, **k):
        cls = {"grid": Grid, "sub": Sub, "stream": Stream}[kind]
        inst = cls(*a, **k)
        Grid._instances.append(inst)
        return inst

    def forget():
        Grid._instances.clear()

    _classes.update(Grid=Grid, GridArgs=GridArgs, Sub=Sub, SubArgs=SubArgs, Other=Other, OtherArgs=OtherArgs,
                    Stream=Stream, new=new, forget=forget)
    return _classes
