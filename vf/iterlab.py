"""Shared machinery for the render-iterator properties (C08, C09, C10): generation of set-ups
and op lists, an interpreter that drives a real RenderIterator and reports observations."""

from __future__ import annotations

from hypothesis import strategies as st

from . import hren
from .ref import iterator as RI
from .ref import padding as RP

FILLS = [" ", "#", ""]


def pad_spec():
    aligned = st.tuples(st.just("aligned"), st.integers(-4, 14), st.integers(-4, 8), st.integers(0, 2), st.integers(0, 2)).map(list)
    exact = st.tuples(st.just("exact"), *[st.sampled_from([0, 0, 1, 2])] * 4).map(list)
    return st.one_of(aligned, exact, st.just(["exact", 0, 0, 0, 0]))


dur_st = st.one_of(st.sampled_from([1, 40, 100]), st.just("DYNAMIC"))


@st.composite
def setups(draw, kinds=("grid", "grid", "sub", "stream"), loops=(-1, 1, 2, 3), force_cache=None):
    kind = draw(st.sampled_from(list(kinds)))
    n = draw(st.integers(0, 8)) if kind == "stream" else draw(st.integers(2, 7))
    s = {
        "kind": kind, "n": n, "w": draw(st.integers(1, 5)), "h": draw(st.integers(1, 3)),
        "loops": draw(st.sampled_from(list(loops))),
        "cache": draw(st.sampled_from([False, True, max(1, n - 1), max(1, n), n + 1])) if force_cache is None else force_cache,
        "ctor": draw(st.sampled_from(["init", "init", "iter", "from_data"])),
        "pad": draw(pad_spec()), "fill": draw(st.sampled_from(FILLS)),
        "dur": draw(dur_st), "salt": draw(st.sampled_from([None, 0, 1, 5, -1])),
        "cols": draw(st.integers(1, 30)), "rows": draw(st.integers(1, 20)),
    }
    return s


@st.composite
def ops(draw, n_hint=7, max_len=30, with_close=True):
    out = []
    kinds = ["next", "next", "next", "nexts", "seek", "seek", "dur", "pad", "args", "size", "rseek", "resize", "tell", "decoy"]
    if with_close:
        kinds.append("close")
    for _ in range(draw(st.integers(1, max_len))):
        k = draw(st.sampled_from(kinds))
        o = {"op": k}
        if k == "nexts":
            o["k"] = draw(st.integers(2, n_hint + 2))
        elif k == "seek":
            o["off"] = draw(st.integers(-n_hint - 2, n_hint + 2))
            o["whence"] = draw(st.integers(0, 2))
        elif k == "dur":
            o["v"] = draw(st.one_of(dur_st, st.sampled_from([0, -1, 7])))
        elif k == "pad":
            o["spec"] = draw(pad_spec())
            o["fill"] = draw(st.sampled_from(FILLS))
        elif k == "args":
            o["kind"] = draw(st.sampled_from(["grid", "grid", "base", "sub", "other", "same"]))
            o["salt"] = draw(st.sampled_from([0, 1, 2, 5, -1, -2]))  # -1 / -2: distinct values with equal hash() in CPython
        elif k == "size":
            o["w"], o["h"] = draw(st.integers(1, 5)), draw(st.integers(1, 3))
        elif k == "rseek":
            o["k"] = draw(st.integers(0, n_hint))
        elif k == "resize":
            o["cols"], o["rows"] = draw(st.integers(1, 30)), draw(st.integers(1, 20))
        out.append(o)
    return out


# ----------------------------------------------------------------------------------------------

class Lab:
    """One real iterator (+ its renderable) built from a set-up."""

    def __init__(self, setup, env, cache_override=None):
        from term_image import padding as P
        from term_image.render import RenderIterator
        from term_image.renderable import FrameDuration, RenderArgs

        self.P, self.env = P, env
        self.H = H = hren.classes()
        self.s = s = setup
        self.FrameDuration = FrameDuration
        self.RenderArgs = RenderArgs
        dur = FrameDuration.DYNAMIC if s["dur"] == "DYNAMIC" else s["dur"]
        if s["kind"] == "stream":
            self.r = H["new"]("stream", s["w"], s["h"], s["n"], dur)
        else:
            self.r = H["new"](s["kind"], s["w"], s["h"], s["n"], dur)
        self.rcls = type(self.r)
        args = None if s["salt"] is None else RenderArgs(self.rcls, H["GridArgs"](s["salt"]))
        cache = s["cache"] if cache_override is None else cache_override
        self.caller_data = None
        ctor = s["ctor"]
        if ctor == "iter":
            self.it = iter(self.r)
        elif ctor == "from_data":
            data = self.r._get_render_data_(iteration=True)
            self.caller_data = data
            self.it = RenderIterator._from_render_data_(
                self.r, data, args, self.padding(s["pad"], s["fill"]), s["loops"], cache,
                finalize=bool(s.get("finalize", True)))
        else:
            self.it = RenderIterator(self.r, args, self.padding(s["pad"], s["fill"]), s["loops"], cache)

    def decoy(self):
        """Another live iterator over another renderable of the same class, built from caller-made render data, with
        its own padding, render arguments and frame cache: nothing of it may show in this lab's iterator."""
        from term_image.render import RenderIterator

        s = self.s
        if s["kind"] == "stream" or s["n"] < 2:
            return
        dur = self.FrameDuration.DYNAMIC if s["dur"] == "DYNAMIC" else s["dur"]
        r2 = self.H["new"](s["kind"], s["w"], s["h"], s["n"], dur)
        data = r2._get_render_data_(iteration=True)
        it = RenderIterator._from_render_data_(
            r2, data, self.RenderArgs(type(r2), self.H["GridArgs"](9)), self.P.ExactPadding(3, 1, 2, 1, "~"), 2, True)
        next(it)
        next(it)
        if not hasattr(self, "decoys"):
            self.decoys = []
        self.decoys.append((it, r2))
        if len(self.decoys) > 1:  # the older one is exhausted meanwhile
            old, _ = self.decoys.pop(0)
            for _ in old:
                pass

    def padding(self, spec, fill):
        P = self.P
        if spec[0] == "aligned":
            return P.AlignedPadding(spec[1], spec[2], P.HAlign(spec[3]), P.VAlign(spec[4]), fill)
        return P.ExactPadding(*spec[1:5], fill)

    def model(self):
        s = self.s
        definite = s["kind"] != "stream"
        if s["ctor"] == "iter":
            return RI.IterModel("definite" if definite else "stream", s["n"], s["w"], s["h"], 1, s["dur"],
                                ["exact", 0, 0, 0, 0], " ", 0, (s["cols"], s["rows"]))
        return RI.IterModel("definite" if definite else "stream", s["n"], s["w"], s["h"], s["loops"], s["dur"],
                            s["pad"], s["fill"], s["salt"] or 0, (s["cols"], s["rows"]))

    # -- run one op on the real iterator; returns an observation tuple ------------------
    def do(self, o):
        from term_image.geometry import Size
        from term_image.renderable import Seek

        it, k = self.it, o["op"]
        try:
            if k == "next":
                try:
                    f = next(it)
                except StopIteration:
                    return ("stop",)
                return ("frame", f.number, f.duration, tuple(f.render_size), f.render_output)
            if k == "seek":
                it.seek(o["off"], Seek(o["whence"]))
            elif k == "dur":
                it.set_frame_duration(self.FrameDuration.DYNAMIC if o["v"] == "DYNAMIC" else o["v"])
            elif k == "pad":
                it.set_padding(self.padding(o["spec"], o["fill"]))
            elif k == "size":
                it.set_render_size(Size(o["w"], o["h"]))
            elif k == "args":
                it.set_render_args(self.make_args(o))
            elif k == "close":
                it.close()
            else:
                raise AssertionError(k)
            return ("ok",)
        except Exception as e:
            return ("err", type(e).__name__, str(e)[:80])

    def args_compat(self, o):
        kind = o["kind"]
        if kind in ("grid", "base", "same"):
            return True
        if kind == "sub":
            return self.s["kind"] == "sub"
        return False

    def make_args(self, o):
        H, RA = self.H, self.RenderArgs
        kind = o["kind"]
        if kind == "grid":
            return RA(H["Grid"], H["GridArgs"](o["salt"]))
        if kind == "same":
            return RA(self.rcls, H["GridArgs"](o["salt"]))
        if kind == "base":
            from term_image.renderable import Renderable

            return RA(Renderable)
        if kind == "sub":
            return RA(H["Sub"], H["GridArgs"](o["salt"]), H["SubArgs"](3))
        return RA(H["Other"], H["OtherArgs"](1))


def expected_frame(m: RI.IterModel, k: int, d, P, lab: Lab):
    """The Frame the model predicts (number, duration, padded size, output)."""
    from term_image.geometry import Size

    w, h = m.size
    bare = hren.grid_text(w, h, k, m.salt)
    left, top, right, bottom = m.sides()
    size = (left + w + right, top + h + bottom)
    if any((left, top, right, bottom)):
        out = P.ExactPadding(left, top, right, bottom, m.fill).pad(bare, Size(w, h))
    else:
        out = bare
    return ("frame", k, d, size, out)
