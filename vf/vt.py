"""A terminal model: ECMA-48 / xterm control-sequence parser + screen with kitty / iTerm2
graphics.  This is the central oracle of several properties; it is written from the
protocol documents, never from the code under test.

Coordinates are 0-based (x = column, y = row).
"""

from __future__ import annotations

import base64
import re
import zlib
from dataclasses import dataclass, field

ESC = "\x1b"
DEFAULT_SGR = (None, None, frozenset())

_PRINTABLE_RUN = re.compile(r"[^\x00-\x1f\x7f\x1b]+")
_STR_END = re.compile(r"[\x1b\x07\x18\x1a]")


def cwidth(ch: str) -> int:
    o = ord(ch)
    if o < 0x300:
        return 1
    try:
        from wcwidth import wcwidth

        w = wcwidth(ch)
        return 1 if w < 0 else w
    except Exception:  # pragma: no cover
        return 1


@dataclass
class Placement:
    """A graphics placement (kitty) or persistent image (iTerm2 on konsole)."""

    proto: str  # "kitty" | "iterm2"
    x: int
    y: int
    c: int
    r: int
    z: int
    digest: int  # hash of the decoded payload
    meta: dict = field(default_factory=dict)

    def cells(self):
        for yy in range(self.y, self.y + self.r):
            for xx in range(self.x, self.x + self.c):
                yield xx, yy

    def covers(self, x, y):
        return self.x <= x < self.x + self.c and self.y <= y < self.y + self.r


class Screen:
    def __init__(self, cols: int, rows: int, *, profile: str = "other", strict: bool = False,
                 decode_graphics: bool = True):
        self.cols, self.rows = cols, rows
        self.profile = profile  # "kitty" | "konsole" | "wezterm" | "iterm2" | "other"
        self.strict = strict
        self.decode_graphics = decode_graphics
        self.x = self.y = 0
        self.wrap_pending = False
        self.autowrap = True
        self.insert_mode = False
        self.cursor_visible = True
        self.sgr = DEFAULT_SGR
        self.sync_depth = 0
        self.sync_log: list[str] = []
        blank = (" ", None, None, frozenset(), None)
        self._blank = blank
        # cell = (char, fg, bg, attrs, image_ref)
        self.grid = [[blank] * cols for _ in range(rows)]
        self.touched = [[False] * cols for _ in range(rows)]
        self.placements: list[Placement] = []
        self.scrolls = 0
        self.events: list[tuple] = []  # anomalies: (kind, detail)
        self.clamps: list[tuple] = []
        self.sequences = 0
        self.graphics_log: list[dict] = []  # every complete graphics command, decoded
        self.out_of_sync_bytes = 0  # bytes that changed the screen outside a 2026 bracket
        self.track_sync = False
        self.strict_strings = False  # True: only ST (BEL for OSC) ends a command string
        # parser
        self._state = "ground"
        self._buf: list[str] = []
        self._kind = ""
        # kitty chunked transmission in progress
        self._kitty_pending: dict | None = None
        self._image_seq = 0

    # ------------------------------------------------------------------ helpers
    def fill(self, ch: str = ".") -> None:
        """Pre-fill the screen with a sentinel glyph (not marked as touched)."""
        cell = (ch, None, None, frozenset(), None)
        self.grid = [[cell] * self.cols for _ in range(self.rows)]

    def set_rows(self, rows_text: list[str]) -> None:
        for y, line in enumerate(rows_text[: self.rows]):
            for x, ch in enumerate(line[: self.cols]):
                self.grid[y][x] = (ch, None, None, frozenset(), None)

    def reset_touched(self) -> None:
        self.touched = [[False] * self.cols for _ in range(self.rows)]

    def anomaly(self, kind: str, detail: str = "") -> None:
        self.events.append((kind, detail))

    def in_ground(self) -> bool:
        return self._state == "ground" and self._kitty_pending is None

    def parser_state(self) -> str:
        if self._state != "ground":
            return self._state + (":" + self._kind if self._kind else "")
        if self._kitty_pending is not None:
            return "kitty-chunk-pending"
        return "ground"

    # ------------------------------------------------------------------ feeding
    def feed(self, data: str, onlcr: bool = False) -> None:
        i, n = 0, len(data)
        while i < n:
            st = self._state
            if st == "ground":
                m = _PRINTABLE_RUN.match(data, i)
                if m:
                    self._print(m.group())
                    i = m.end()
                    continue
                ch = data[i]
                i += 1
                if ch == ESC:
                    self._state = "esc"
                else:
                    self._c0(ch, onlcr)
            elif st == "esc":
                ch = data[i]
                i += 1
                self._esc(ch, onlcr)
            elif st == "esc_charset":
                i += 1
                self._state = "ground"
                self.sequences += 1
            elif st == "csi":
                ch = data[i]
                i += 1
                o = ord(ch)
                if 0x40 <= o <= 0x7E:
                    seq = "".join(self._buf)
                    self._buf = []
                    self._state = "ground"
                    self.sequences += 1
                    self._csi(seq, ch)
                elif 0x20 <= o <= 0x3F:
                    self._buf.append(ch)
                elif ch == ESC:
                    self.anomaly("aborted", "CSI " + "".join(self._buf))
                    self._buf = []
                    self._state = "esc"
                elif ch in "\x18\x1a":
                    self.anomaly("cancelled", "CSI " + "".join(self._buf))
                    self._buf = []
                    self._state = "ground"
                elif o < 0x20:
                    self.anomaly("c0_in_csi", repr(ch))
                    self._c0(ch, onlcr)
                else:
                    self.anomaly("bad_csi_char", repr(ch))
                    self._buf = []
                    self._state = "ground"
            elif st == "str":
                m = _STR_END.search(data, i)
                if not m:
                    self._buf.append(data[i:])
                    i = n
                    continue
                self._buf.append(data[i : m.start()])
                ch = m.group()
                i = m.end()
                if ch == ESC:
                    self._state = "str_esc"
                elif ch == "\x07":
                    if self._kind == "OSC":
                        self._end_string("BEL")
                    else:  # BEL inside APC/DCS/PM/SOS is data (ignored)
                        pass
                else:  # CAN / SUB
                    self.anomaly("cancelled", self._kind)
                    self._buf = []
                    self._state = "ground"
            elif st == "str_esc":
                ch = data[i]
                i += 1
                if ch == "\\":
                    self._end_string("ST")
                elif self.strict_strings:
                    # the library's own model of terminals: a command string swallows everything
                    # (including ESC not followed by a backslash) until ST is written
                    self._buf.append(ESC + ch)
                    self._state = "str_esc" if ch == ESC else "str"
                else:
                    self.anomaly("aborted", f"{self._kind} string by ESC {ch!r}")
                    self._buf = []
                    self._state = "esc"
                    self._esc(ch, onlcr)
            else:  # pragma: no cover
                raise AssertionError(st)

    # ------------------------------------------------------------------ C0 / ESC
    def _c0(self, ch: str, onlcr: bool) -> None:
        if ch == "\n":
            if onlcr:
                self.x = 0
            self._lf()
        elif ch == "\r":
            self.x = 0
            self.wrap_pending = False
        elif ch == "\b":
            self.wrap_pending = False
            if self.x > 0:
                self.x -= 1
        elif ch == "\t":
            self.wrap_pending = False
            self.x = min(self.cols - 1, (self.x // 8 + 1) * 8)
        elif ch in "\x00\x07\x0e\x0f\x7f":
            pass
        else:
            self.anomaly("c0", repr(ch))

    def _esc(self, ch: str, onlcr: bool) -> None:
        self._buf = []
        if ch == "[":
            self._state = "csi"
        elif ch in "]P_^X":
            self._state = "str"
            self._kind = {"]": "OSC", "P": "DCS", "_": "APC", "^": "PM", "X": "SOS"}[ch]
        elif ch in "()*+":
            self._state = "esc_charset"
        elif ch == "\\":
            self._state = "ground"  # stray ST: harmless no-op
            self.sequences += 1
            self.events.append(("stray_st", ""))
        elif ch == ESC:
            self.anomaly("aborted", "ESC ESC")
        else:
            self._state = "ground"
            self.sequences += 1
            if ch == "7":
                self._saved = (self.x, self.y, self.sgr)
            elif ch == "8":
                self.x, self.y, self.sgr = getattr(self, "_saved", (0, 0, DEFAULT_SGR))
                self.wrap_pending = False
            elif ch == "M":
                if self.y > 0:
                    self.y -= 1
            elif ch == "D":
                self._lf()
            elif ch == "E":
                self.x = 0
                self._lf()
            elif ch in "=>c":
                pass
            else:
                self.anomaly("unknown_esc", repr(ch))

    # ------------------------------------------------------------------ text
    def _lf(self) -> None:
        self.wrap_pending = False
        if self.y == self.rows - 1:
            self._scroll_up(1)
        else:
            self.y += 1

    def _scroll_up(self, n: int) -> None:
        for _ in range(n):
            self.scrolls += 1
            self.grid.pop(0)
            self.grid.append([self._blank] * self.cols)
            self.touched.pop(0)
            self.touched.append([False] * self.cols)
            keep = []
            for p in self.placements:
                p.y -= 1
                if p.y + p.r > 0:
                    keep.append(p)
            self.placements = keep

    def _mark(self) -> None:
        if self.track_sync and self.sync_depth == 0:
            self.out_of_sync_bytes += 1

    def _print(self, text: str) -> None:
        fg, bg, attrs = self.sgr
        self._mark()
        for ch in text:
            w = cwidth(ch)
            if w == 0:
                continue
            if self.wrap_pending:
                if self.autowrap:
                    self.events.append(("autowrap", f"at row {self.y}"))
                    self.x = 0
                    self._lf()
                self.wrap_pending = False
            if w == 2 and self.x == self.cols - 1:
                self.events.append(("wide_at_margin", ""))
            row = self.grid[self.y]
            if self.insert_mode:
                row.insert(self.x, (ch, fg, bg, attrs, None))
                row.pop()
                for xx in range(self.x, self.cols):
                    self.touched[self.y][xx] = True
            else:
                row[self.x] = (ch, fg, bg, attrs, None)
                self.touched[self.y][self.x] = True
                if w == 2 and self.x + 1 < self.cols:
                    row[self.x + 1] = ("", fg, bg, attrs, None)
                    self.touched[self.y][self.x + 1] = True
            nx = self.x + w
            if nx >= self.cols:
                self.x = self.cols - 1
                self.wrap_pending = True
            else:
                self.x = nx

    # ------------------------------------------------------------------ CSI
    def _csi(self, seq: str, final: str) -> None:
        private = ""
        if seq and seq[0] in "?>=<":
            private, seq = seq[0], seq[1:]
        inter = ""
        while seq and 0x20 <= ord(seq[-1]) <= 0x2F:
            inter = seq[-1] + inter
            seq = seq[:-1]
        if final == "m" and not private and not inter:
            self._sgr(seq)
            return
        try:
            params = [int(p) if p else None for p in seq.split(";")] if seq else []
        except ValueError:
            self.anomaly("bad_params", seq + final)
            return

        def p(i, default=1):
            v = params[i] if i < len(params) else None
            return default if v is None else v

        def p1(i):  # count parameter: 0 means 1
            return max(1, p(i, 1))

        if private == "?" and final in "hl":
            on = final == "h"
            for v in params:
                if v == 25:
                    self.cursor_visible = on
                elif v == 2026:
                    self.sync_log.append("begin" if on else "end")
                    if on:
                        self.sync_depth += 1
                    else:
                        if self.sync_depth == 0:
                            self.anomaly("sync_end_without_begin")
                        else:
                            self.sync_depth -= 1
                elif v == 7:
                    self.autowrap = on
                elif v in (1, 12, 1000, 1002, 1003, 1004, 1005, 1006, 1015, 1049, 1047, 1048, 47, 2004):
                    pass
                else:
                    self.anomaly("unknown_mode", f"?{v}{final}")
            return
        if private or inter:
            if private == ">" and final in "qc":  # XTVERSION / DA2 requests: no screen effect
                return
            self.anomaly("unknown_csi", private + seq + inter + final)
            return
        if final in "ABCD":
            n = p1(0)
            self.wrap_pending = False
            if final == "A":
                if n > self.y:
                    self.clamps.append(("top", n, self.y))
                self.y = max(0, self.y - n)
            elif final == "B":
                if self.y + n > self.rows - 1:
                    self.clamps.append(("bottom", n, self.y))
                self.y = min(self.rows - 1, self.y + n)
            elif final == "C":
                if self.x + n > self.cols - 1:
                    self.clamps.append(("right", n, self.x))
                self.x = min(self.cols - 1, self.x + n)
            else:
                if n > self.x:
                    self.clamps.append(("left", n, self.x))
                self.x = max(0, self.x - n)
        elif final in "Hf":
            self.wrap_pending = False
            self.y = min(self.rows - 1, max(0, p(0) - 1))
            self.x = min(self.cols - 1, max(0, p(1) - 1))
        elif final == "G":
            self.wrap_pending = False
            self.x = min(self.cols - 1, max(0, p(0) - 1))
        elif final == "d":
            self.wrap_pending = False
            self.y = min(self.rows - 1, max(0, p(0) - 1))
        elif final == "E":
            self.wrap_pending = False
            self.x = 0
            self.y = min(self.rows - 1, self.y + p1(0))
        elif final == "F":
            self.wrap_pending = False
            self.x = 0
            self.y = max(0, self.y - p1(0))
        elif final == "X":
            self._erase(self.y, self.x, min(self.cols, self.x + p1(0)))
        elif final == "K":
            mode = p(0, 0)
            if mode == 0:
                self._erase(self.y, self.x, self.cols)
            elif mode == 1:
                self._erase(self.y, 0, self.x + 1)
            else:
                self._erase(self.y, 0, self.cols)
        elif final == "J":
            mode = p(0, 0)
            if mode == 0:
                self._erase(self.y, self.x, self.cols)
                for yy in range(self.y + 1, self.rows):
                    self._erase(yy, 0, self.cols)
            elif mode == 1:
                for yy in range(0, self.y):
                    self._erase(yy, 0, self.cols)
                self._erase(self.y, 0, self.x + 1)
            else:
                for yy in range(self.rows):
                    self._erase(yy, 0, self.cols)
        elif final == "@":
            n = p1(0)
            row = self.grid[self.y]
            fgc, bgc, _ = self.sgr
            for _ in range(min(n, self.cols - self.x)):
                row.insert(self.x, (" ", None, bgc, frozenset(), None))
                row.pop()
            for xx in range(self.x, self.cols):
                self.touched[self.y][xx] = True
            self._mark()
        elif final == "P":
            n = p1(0)
            row = self.grid[self.y]
            _, bgc, _ = self.sgr
            for _ in range(min(n, self.cols - self.x)):
                row.pop(self.x)
                row.append((" ", None, bgc, frozenset(), None))
            for xx in range(self.x, self.cols):
                self.touched[self.y][xx] = True
            self._mark()
        elif final in "hl":
            for v in params:
                if v == 4:
                    self.insert_mode = final == "h"
                else:
                    self.anomaly("unknown_mode", f"{v}{final}")
        elif final in "rstcnq":
            pass  # margins / window ops / DA / DSR: no visible effect modelled
        else:
            self.anomaly("unknown_csi", seq + final)

    def _erase(self, y: int, x0: int, x1: int) -> None:
        _, bg, _ = self.sgr
        row = self.grid[y]
        self._mark()
        for xx in range(x0, x1):
            row[xx] = (" ", None, bg, frozenset(), None)
            self.touched[y][xx] = True

    def _sgr(self, seq: str) -> None:
        fg, bg, attrs = self.sgr
        if seq == "":
            self.sgr = DEFAULT_SGR
            return
        parts = seq.split(";")
        i = 0
        attrs = set(attrs)
        try:
            while i < len(parts):
                part = parts[i]
                if ":" in part:
                    sub = part.split(":")
                    code = int(sub[0]) if sub[0] else 0
                    if code in (38, 48) and len(sub) >= 2 and sub[1] == "2":
                        vals = [int(v) for v in sub[2:] if v != ""]
                        if len(vals) >= 3:
                            col = tuple(vals[-3:])
                            if code == 38:
                                fg = col
                            else:
                                bg = col
                        else:
                            self.anomaly("bad_sgr", seq)
                    elif code in (38, 48) and len(sub) >= 3 and sub[1] == "5":
                        col = ("idx", int(sub[2]))
                        if code == 38:
                            fg = col
                        else:
                            bg = col
                    else:
                        attrs.add(part)
                    i += 1
                    continue
                code = int(part) if part else 0
                if code == 0:
                    fg = bg = None
                    attrs = set()
                elif code in (38, 48):
                    if i + 1 < len(parts) and parts[i + 1] == "2" and i + 4 < len(parts):
                        col = (int(parts[i + 2]), int(parts[i + 3]), int(parts[i + 4]))
                        i += 4
                    elif i + 1 < len(parts) and parts[i + 1] == "5" and i + 2 < len(parts):
                        col = ("idx", int(parts[i + 2]))
                        i += 2
                    else:
                        self.anomaly("bad_sgr", seq)
                        break
                    if code == 38:
                        fg = col
                    else:
                        bg = col
                elif code == 39:
                    fg = None
                elif code == 49:
                    bg = None
                elif 30 <= code <= 37 or 90 <= code <= 97:
                    fg = ("idx", code)
                elif 40 <= code <= 47 or 100 <= code <= 107:
                    bg = ("idx", code)
                elif code in (22, 23, 24, 25, 27, 28, 29):
                    off = {22: (1, 2), 23: (3,), 24: (4,), 25: (5, 6), 27: (7,), 28: (8,), 29: (9,)}[code]
                    for o in off:
                        attrs.discard(str(o))
                else:
                    attrs.add(str(code))
                i += 1
        except ValueError:
            self.anomaly("bad_sgr", seq)
        self.sgr = (fg, bg, frozenset(attrs))

    # ------------------------------------------------------------------ strings
    def _end_string(self, term: str) -> None:
        body = "".join(self._buf)
        kind = self._kind
        self._buf = []
        self._state = "ground"
        self.sequences += 1
        if kind == "APC" and body.startswith("G"):
            self._kitty(body[1:])
        elif kind == "OSC" and body.startswith("1337;File="):
            self._iterm2(body[len("1337;File="):])
        elif kind == "OSC":
            pass  # titles, colour queries, ...: no screen effect
        elif kind == "DCS":
            pass
        else:
            self.anomaly("unknown_string", kind + " " + body[:20])

    # -- kitty graphics ------------------------------------------------------------
    def _kitty(self, body: str) -> None:
        ctrl, _, payload = body.partition(";")
        keys: dict[str, str] = {}
        if ctrl:
            for kv in ctrl.split(","):
                k, eq, v = kv.partition("=")
                if not eq or not k:
                    self.anomaly("kitty_bad_control", ctrl[:60])
                    return
                keys[k] = v
        entry = {"proto": "kitty", "keys": dict(keys), "payload_len": len(payload),
                 "x": self.x, "y": self.y}
        self.graphics_log.append(entry)
        pend = self._kitty_pending
        if pend is not None:
            # continuation chunk: only 'm' (and optionally 'q') are meaningful
            extra = set(keys) - {"m", "q"}
            if extra:
                self.anomaly("kitty_chunk_extra_keys", ",".join(sorted(extra)))
            pend["chunks"].append(payload)
            entry["continuation"] = True
            if keys.get("m", "0") != "1":
                self._kitty_pending = None
                if payload == "" and keys.get("q") == "1" and len(keys) == 2:
                    entry["closes_series"] = True  # explicit abort/close of a chunk series
                    self.anomaly("kitty_series_closed_empty", "")
                    return
                self._kitty_complete(pend)
            return
        action = keys.get("a", "t")
        if action in ("T", "t", "q", "f"):
            pend = {"keys": keys, "chunks": [payload], "x": self.x, "y": self.y, "entry": entry}
            if keys.get("m") == "1":
                self._kitty_pending = pend
            else:
                self._kitty_complete(pend)
        elif action == "d":
            self._kitty_delete(keys)
        elif action == "p":
            self.anomaly("kitty_unsupported", "a=p")
        else:
            if set(keys) <= {"m", "q"}:  # e.g. q=1,m=0 with nothing pending: harmless
                entry["noop"] = True
                return
            self.anomaly("kitty_unknown_action", action)

    def _kitty_complete(self, pend: dict) -> None:
        keys = pend["keys"]
        entry = pend["entry"]
        chunks = pend["chunks"]
        entry["n_chunks"] = len(chunks)
        entry["chunk_lens"] = [len(c) for c in chunks]
        action = keys.get("a", "t")
        data = None
        if self.decode_graphics:
            try:
                raw = base64.b64decode("".join(chunks), validate=True)
            except Exception as e:
                self.anomaly("kitty_bad_base64", str(e))
                return
            if keys.get("o") == "z":
                try:
                    raw = zlib.decompress(raw)
                except Exception as e:
                    self.anomaly("kitty_bad_zlib", str(e))
                    return
            data = raw
            entry["data"] = raw
            fmt = int(keys.get("f", "32"))
            if fmt in (24, 32):
                try:
                    s, v = int(keys["s"]), int(keys["v"])
                except (KeyError, ValueError):
                    self.anomaly("kitty_missing_size", str(keys))
                    return
                if len(raw) != s * v * fmt // 8:
                    self.anomaly("kitty_size_mismatch", f"{len(raw)} != {s}*{v}*{fmt // 8}")
                    return
        if action != "T":
            return  # transmit-only or query: no placement
        try:
            c = int(keys.get("c", "0"))
            r = int(keys.get("r", "0"))
            z = int(keys.get("z", "0"))
        except ValueError:
            self.anomaly("kitty_bad_int", str(keys))
            return
        if c <= 0 or r <= 0:
            self.anomaly("kitty_no_cell_footprint", str(keys))
            return
        x, y = pend["x"], pend["y"]
        if self.wrap_pending:
            pass  # placement starts at the cursor cell
        self._mark()
        digest = hash(data) if data is not None else hash("".join(chunks))
        pl = Placement("kitty", x, y, c, r, z, digest, {"keys": keys})
        if self.profile == "konsole":
            self.placements = [
                q for q in self.placements if not (q.x == x and q.y == y and q.z == z)
            ]
        self.placements.append(pl)
        entry["placed"] = (x, y, c, r, z)
        if x + c > self.cols:
            self.events.append(("image_past_margin", f"x={x} c={c}"))
        if keys.get("C") != "1":
            # cursor moves right by c and down by r-1 (kitty semantics)
            need = y + r - 1 - (self.rows - 1)
            if need > 0:
                self._scroll_up(need)
                y -= need
            self.y = min(self.rows - 1, y + r - 1)
            self.x = min(self.cols - 1, x + c)

    def _kitty_delete(self, keys: dict) -> None:
        d = keys.get("d", "a")
        self._mark()
        if d in "aA":
            self.placements = []
        elif d in "cC":
            self.placements = [p for p in self.placements if not p.covers(self.x, self.y)]
        elif d in "zZ":
            try:
                z = int(keys.get("z", "0"))
            except ValueError:
                self.anomaly("kitty_bad_int", str(keys))
                return
            self.placements = [p for p in self.placements if p.z != z]
        else:
            self.anomaly("kitty_unknown_delete", d)

    # -- iTerm2 inline images ------------------------------------------------------
    def _iterm2(self, body: str) -> None:
        args, sep, payload = body.partition(":")
        if not sep:
            self.anomaly("iterm2_no_payload", body[:40])
            return
        keys = {}
        for kv in args.split(";"):
            if not kv:
                continue
            k, eq, v = kv.partition("=")
            keys[k] = v
        entry = {"proto": "iterm2", "keys": keys, "payload_len": len(payload), "x": self.x, "y": self.y}
        self.graphics_log.append(entry)
        if self.decode_graphics:
            try:
                raw = base64.b64decode(payload, validate=True)
            except Exception as e:
                self.anomaly("iterm2_bad_base64", str(e))
                return
            entry["data"] = raw
            if "size" in keys and keys["size"] != str(len(raw)):
                self.anomaly("iterm2_size_mismatch", f"size={keys['size']} actual={len(raw)}")
        if keys.get("inline") != "1":
            return
        try:
            w, h = int(keys["width"]), int(keys["height"])
        except (KeyError, ValueError):
            self.anomaly("iterm2_non_cell_size", str({k: keys.get(k) for k in ("width", "height")}))
            return
        if w <= 0 or h <= 0:
            self.anomaly("iterm2_non_cell_size", f"{w}x{h}")
            return
        x, y = self.x, self.y
        need = y + h - 1 - (self.rows - 1)
        if need > 0:
            self._scroll_up(need)
            y -= need
        if x + w > self.cols:
            self.events.append(("image_past_margin", f"x={x} w={w}"))
        self._mark()
        self._image_seq += 1
        digest = hash(entry.get("data", payload))
        if self.profile == "konsole":
            # konsole draws iTerm2 images with its kitty-graphics machinery: they persist
            # over text and are only removed by kitty delete commands.
            self.placements = [
                q for q in self.placements if not (q.x == x and q.y == y and q.z == 0 and q.proto == "iterm2")
            ]
            self.placements.append(Placement("iterm2", x, y, w, h, 0, digest, {"keys": keys}))
        else:
            ref = ("img", self._image_seq, digest)
            for yy in range(max(0, y), min(self.rows, y + h)):
                row = self.grid[yy]
                for xx in range(x, min(self.cols, x + w)):
                    if self.profile == "wezterm":
                        # WezTerm draws the image over the cells without clearing their text (the reason why the
                        # library erases the area first unless mix is requested): the glyph underneath stays
                        old = row[xx]
                        row[xx] = (old[0], old[1], old[2], old[3], (ref, xx - x, yy - y))
                    else:
                        row[xx] = (" ", None, None, frozenset(), (ref, xx - x, yy - y))
                    self.touched[yy][xx] = True
        entry["placed"] = (x, y, w, h)
        if keys.get("doNotMoveCursor") == "1":
            self.y = max(0, y)
            return
        self.y = max(0, min(self.rows - 1, y + h - 1))
        nx = x + w
        if nx >= self.cols:
            self.x = self.cols - 1
            self.wrap_pending = True
        else:
            self.x = nx
            self.wrap_pending = False

    # ------------------------------------------------------------------ reading
    def cell(self, x: int, y: int):
        return self.grid[y][x]

    def halves(self, x: int, y: int):
        """(upper, lower) half-cell colours, None = terminal default; plus glyph class."""
        ch, fg, bg, attrs, img = self.grid[y][x]
        if img is not None:
            return ("img", img), "image"
        if ch == " ":
            return (bg, bg), "blank"
        if ch == "▀":
            return (fg, bg), "upper"
        if ch == "▄":
            return (bg, fg), "lower"
        return (ch, fg, bg), "glyph"

    def text_row(self, y: int) -> str:
        return "".join(c[0] or " " for c in self.grid[y])

    def covered_by_graphics(self, x: int, y: int) -> bool:
        if self.grid[y][x][4] is not None:
            return True
        return any(p.covers(x, y) for p in self.placements)

    def graphics_map(self) -> dict:
        """(x, y) -> sorted tuple of (z, proto, digest, dx, dy) visible at that cell."""
        out: dict = {}
        for p in self.placements:
            for xx, yy in p.cells():
                if 0 <= xx < self.cols and 0 <= yy < self.rows:
                    out.setdefault((xx, yy), []).append((p.z, p.proto, p.digest, xx - p.x, yy - p.y))
        return {k: tuple(sorted(v)) for k, v in out.items()}


def anchor(render: str, x0: int) -> str:
    """Places a multi-line render at column x0 the way the library does: every newline is
    followed by a cursor-forward of x0 columns (Padding.pad with an empty fill)."""
    if x0 <= 0:
        return render
    return render.replace("\n", f"\n\x1b[{x0}C")
