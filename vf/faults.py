"""k-th-call fault injectors.

`CallFaults` numbers every call made through the wrappers it hands out; a *plan*
(index, "before"|"after", exception factory) makes exactly that call raise, either before
performing the real call or after it.  A fault-free dry run with `plan=None` yields the list
of events to enumerate.
"""

from __future__ import annotations


class Proxy:
    """Stands in for a module object: selected attributes overridden, the rest delegated."""

    def __init__(self, target, overrides):
        object.__setattr__(self, "_target", target)
        object.__setattr__(self, "_over", dict(overrides))

    def __getattr__(self, name):
        over = object.__getattribute__(self, "_over")
        if name in over:
            return over[name]
        return getattr(object.__getattribute__(self, "_target"), name)


class CallFaults:
    def __init__(self):
        self.reset()

    def reset(self, plan=None):
        self.events = []  # (name, detail)
        self.plan = plan
        self.fired = False
        self.skipped = False
        self.enabled = True

    def wrap(self, name, fn, detail=None):
        def wrapper(*a, **k):
            if not self.enabled:
                return fn(*a, **k)
            i = len(self.events)
            ev = (name, detail(*a, **k) if detail else None)
            self.events.append(ev)
            plan = self.plan
            hit = plan and plan[0] == i
            if hit and len(plan) > 3 and plan[3] is not None and not plan[3](ev, self.events):
                hit = False  # guard: the run diverged from the dry run, or this call is excluded
                self.skipped = True
            if hit and plan[1] == "before":
                self.fired = True
                raise plan[2]()
            r = fn(*a, **k)
            if hit and plan[1] == "after":
                self.fired = True
                raise plan[2]()
            return r

        wrapper.__wrapped__ = fn
        return wrapper


class FaultyStream:
    """A text stream proxy that numbers write()/flush() calls and can deliver only a prefix of
    the data of the planned write before raising."""

    def __init__(self, real, faults: CallFaults, tty=True):
        self._real = real
        self._f = faults
        self._tty = tty
        self.encoding = getattr(real, "encoding", "utf-8")
        self.errors = getattr(real, "errors", "strict")

    def isatty(self):
        return self._tty

    def fileno(self):
        return self._real.fileno()

    def writable(self):
        return True

    def write(self, data):
        f = self._f
        if not f.enabled:
            return self._real.write(data)
        i = len(f.events)
        f.events.append(("write", len(data)))
        plan = f.plan
        if plan and plan[0] == i:
            f.fired = True
            prefix = plan[4] if len(plan) > 4 else (0 if plan[1] == "before" else None)
            n = len(data) if prefix is None else max(0, min(len(data), prefix if prefix >= 0 else len(data) + prefix))
            if n:
                self._real.write(data[:n])
                self._real.flush()
            raise plan[2]()
        return self._real.write(data)

    def flush(self):
        f = self._f
        if not f.enabled:
            return self._real.flush()
        i = len(f.events)
        f.events.append(("flush", None))
        plan = f.plan
        if plan and plan[0] == i and plan[1] == "before":
            f.fired = True
            raise plan[2]()
        self._real.flush()
        if plan and plan[0] == i and plan[1] == "after":
            f.fired = True
            raise plan[2]()

    def __getattr__(self, name):
        return getattr(self._real, name)


_FINALLY = {}  # filename -> set of line numbers inside `finally` bodies


def _finally_lines(filename):
    got = _FINALLY.get(filename)
    if got is None:
        import ast

        got = set()
        try:
            with open(filename, encoding="utf-8") as f:
                tree = ast.parse(f.read())
            for node in ast.walk(tree):
                if isinstance(node, ast.Try) and node.finalbody:
                    got.update(range(node.finalbody[0].lineno, node.finalbody[-1].end_lineno + 1))
        except (OSError, SyntaxError):
            pass
        _FINALLY[filename] = got
    return got


def _in_cleanup(frame, suffixes):
    """Is this line, or a line of a calling frame in the traced files, inside a `finally` body (or an `__exit__`)?"""
    while frame is not None:
        code = frame.f_code
        if code.co_filename.endswith(suffixes):
            if code.co_name in ("__exit__", "__del__") or frame.f_lineno in _finally_lines(code.co_filename):
                return True
        frame = frame.f_back
    return False


class LineFault:
    """Raises `exc` at the k-th executed line (1-based) of the code whose file name ends with one of `suffixes`
    (an asynchronous exception such as Ctrl-C landing between two bytecodes), or just counts lines when k is None.

        with LineFault(("image/block.py",), None) as dry: f()      # dry.lines = number of line events
        with LineFault(("image/block.py",), k, KeyboardInterrupt): f()
    """

    def __init__(self, suffixes, k=None, exc=KeyboardInterrupt, distinct=False):
        # distinct=True: k counts source lines reached for the first time (every statement is equally likely to be the
        # interruption point, however long the loops around it run) instead of line events
        self.suffixes, self.k, self.exc, self.distinct = tuple(suffixes), k, exc, distinct
        self.lines = 0
        self.distinct_lines = 0
        self._seen = set()
        self.fired = False
        self._due = False
        self.where = None

    def _local(self, frame, event, arg):
        if event == "line":
            self.lines += 1
            key = (frame.f_code, frame.f_lineno)
            new = key not in self._seen
            if new:
                self._seen.add(key)
                self.distinct_lines += 1
            if self.k is not None and not self.fired and (
                (new and self.distinct_lines == self.k) if self.distinct else self.lines == self.k
            ):
                self._due = True
            if self._due and not self.fired and not _in_cleanup(frame, self.suffixes):
                # (an interruption that lands inside clean-up code -- a `finally` body or what it calls -- cannot be
                # guarded against by any program; the point moves to the next line outside clean-up)
                self.fired = True
                self.where = f"{frame.f_code.co_filename.rsplit('/', 1)[-1]}:{frame.f_lineno}"
                raise self.exc()
        return self._local

    def _global(self, frame, event, arg):
        if event == "call" and frame.f_code.co_filename.endswith(self.suffixes):
            return self._local
        return None

    def __enter__(self):
        import sys

        self._old = sys.gettrace()
        sys.settrace(self._global)
        return self

    def __exit__(self, *a):
        import sys

        sys.settrace(self._old)
        return False


def interrupt_at(files, frac, fn, exc=KeyboardInterrupt, max_lines=40000, dry_fn=None):
    """Runs fn() once to count, then again with `exc` raised at a point chosen by frac in [0,1): the lower half of the
    range selects among source lines reached for the first time, the upper half among all line events.  Returns the
    LineFault used (`.fired`, `.where`) or None when the run is too short/long; `exc` raised by the run is swallowed."""
    with LineFault(files) as dry:
        (dry_fn or fn)()  # dry_fn: the same computation on a twin object, when fn's first run itself must be the interrupted one
    if not 3 < dry.lines < max_lines:
        return None
    if frac < 0.5:
        lf = LineFault(files, 1 + int(frac * 2 * dry.distinct_lines) % max(1, dry.distinct_lines), exc, distinct=True)
    else:
        lf = LineFault(files, 2 + int((frac - 0.5) * 2 * (dry.lines - 3)), exc)
    try:
        with lf:
            fn()
    except exc:
        pass
    return lf
